//! Unambiguous publication records.
//!
//! Publication `i >= 1` writes a record all of whose words are a keyed function of `i`, so that a
//! snapshot identifies the publication it came from and any blend of two publications (or of a
//! half-written one) is recognisable from the value alone.

use clock_bound_shm::{ClockErrorBound, ClockStatus};

/// Mirror of the documented layout of the record (docs/PROTOCOL.md), used to look inside a
/// ClockErrorBound, whose fields are private.
#[repr(C)]
#[derive(Debug, Clone, Copy, PartialEq, Eq)]
pub struct RawCeb {
    pub as_of_sec: i64,
    pub as_of_nsec: i64,
    pub void_after_sec: i64,
    pub void_after_nsec: i64,
    pub bound_nsec: i64,
    pub max_drift_ppb: u32,
    pub reserved1: u32,
    pub clock_status: i32,
}

pub fn raw_of(ceb: &ClockErrorBound) -> RawCeb {
    assert_eq!(std::mem::size_of::<ClockErrorBound>(), 56);
    let p = ceb as *const ClockErrorBound as *const u8;
    // Field by field, never touching the padding bytes.
    unsafe {
        RawCeb {
            as_of_sec: (p as *const i64).read_unaligned(),
            as_of_nsec: (p.add(8) as *const i64).read_unaligned(),
            void_after_sec: (p.add(16) as *const i64).read_unaligned(),
            void_after_nsec: (p.add(24) as *const i64).read_unaligned(),
            bound_nsec: (p.add(32) as *const i64).read_unaligned(),
            max_drift_ppb: (p.add(40) as *const u32).read_unaligned(),
            reserved1: (p.add(44) as *const u32).read_unaligned(),
            clock_status: (p.add(48) as *const i32).read_unaligned(),
        }
    }
}

pub fn words_of_index(i: u64) -> [u64; 7] {
    let b = 8 * i;
    [
        b + 1,
        b + 2,
        b + 3,
        b + 4,
        b + 5,
        ((b + 6) & 0xffff_ffff) | (((b + 7) & 0xffff_ffff) << 32),
        i % 3,
    ]
}

pub fn raw_words(raw: &RawCeb) -> [u64; 7] {
    [
        raw.as_of_sec as u64,
        raw.as_of_nsec as u64,
        raw.void_after_sec as u64,
        raw.void_after_nsec as u64,
        raw.bound_nsec as u64,
        raw.max_drift_ppb as u64 | ((raw.reserved1 as u64) << 32),
        raw.clock_status as u32 as u64,
    ]
}

/// The record of publication `i` (i >= 1).
pub fn encode(i: u64) -> ClockErrorBound {
    let b = (8 * i) as i64;
    let status = match i % 3 {
        0 => ClockStatus::Unknown,
        1 => ClockStatus::Synchronized,
        _ => ClockStatus::FreeRunning,
    };
    ClockErrorBound::new(
        libc::timespec {
            tv_sec: b + 1,
            tv_nsec: b + 2,
        },
        libc::timespec {
            tv_sec: b + 3,
            tv_nsec: b + 4,
        },
        b + 5,
        ((b + 6) as u64 & 0xffff_ffff) as u32,
        ((b + 7) as u64 & 0xffff_ffff) as u32,
        status,
    )
}

#[derive(Debug, Clone, PartialEq, Eq)]
pub enum Decoded {
    /// The all-zero record a reader starts with.
    Initial,
    /// Exactly publication `i`.
    Publication(u64),
    /// Not a record that was ever published: per word, the publication it would belong to.
    Blend([u64; 7]),
}

pub fn decode_words(w: &[u64; 7]) -> Decoded {
    if w.iter().all(|x| *x == 0) {
        return Decoded::Initial;
    }
    let i = w[0].wrapping_sub(1) / 8;
    if i >= 1 && words_of_index(i) == *w {
        return Decoded::Publication(i);
    }
    Decoded::Blend(*w)
}

pub fn decode(ceb: &ClockErrorBound) -> Decoded {
    decode_words(&raw_words(&raw_of(ceb)))
}

/// Render the words of a blend as the publication each seems to come from (for witnesses).
pub fn blend_origin(w: &[u64; 7]) -> Vec<String> {
    let mut out = Vec::new();
    for (k, x) in w.iter().enumerate() {
        let s = match k {
            0..=4 => {
                if *x == 0 {
                    "init".to_string()
                } else if x % 8 == (k as u64 + 1) {
                    format!("{}", x / 8)
                } else {
                    format!("?{}", x)
                }
            }
            5 => {
                let lo = x & 0xffff_ffff;
                let hi = x >> 32;
                if *x == 0 {
                    "init".to_string()
                } else {
                    format!("{}/{}", lo.wrapping_sub(6) / 8, hi.wrapping_sub(7) / 8)
                }
            }
            _ => format!("s{}", x),
        };
        out.push(s);
    }
    out
}

/// Bytes of a valid segment file holding publication `i` (or zeros for i == 0) at generation `gen`.
pub fn segment_bytes(version: u16, gen: u16, i: u64) -> Vec<u8> {
    let mut v = Vec::with_capacity(72);
    v.extend_from_slice(&0x414D5A4Eu32.to_ne_bytes());
    v.extend_from_slice(&0x43420200u32.to_ne_bytes());
    v.extend_from_slice(&72u32.to_ne_bytes());
    v.extend_from_slice(&version.to_ne_bytes());
    v.extend_from_slice(&gen.to_ne_bytes());
    let words = if i == 0 { [0u64; 7] } else { words_of_index(i) };
    for w in words.iter() {
        v.extend_from_slice(&w.to_ne_bytes());
    }
    v
}

//! Scenarios, histories and oracles for the shared-memory protocol of clock-bound-shm.

pub mod record;
pub mod history;
#[cfg(feature = "hooks")]
pub mod sched;

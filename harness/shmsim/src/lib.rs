//! Scenarios, histories and oracles for the shared-memory protocol of clock-bound-shm.

pub mod record;
pub mod history;
#[cfg(feature = "hooks")]
pub mod sched;

/// `snapshot()` with the caller's state made hostile (errno cycling through values an unrelated
/// system call may have left) and the work of the call metered: clock reads and sleeps are
/// counted per call, and a call that exceeds `vworld::meter::LIMIT` of either is reported through
/// `drain_unbounded()` (the interposers break the loop so that the call comes back).
#[cfg(feature = "hooks")]
pub mod metered {
    use clock_bound_shm::{ClockErrorBound, ShmError, ShmReader};
    use std::sync::atomic::{AtomicU64, Ordering};
    use std::sync::Mutex;

    static CALLS: AtomicU64 = AtomicU64::new(0);
    static UNBOUNDED: Mutex<Vec<String>> = Mutex::new(Vec::new());

    pub trait Metered {
        fn msnapshot(&mut self) -> Result<&ClockErrorBound, ShmError>;
    }

    impl Metered for ShmReader {
        fn msnapshot(&mut self) -> Result<&ClockErrorBound, ShmError> {
            let n = CALLS.fetch_add(1, Ordering::Relaxed);
            let e = vworld::meter::ERRNOS[(n % vworld::meter::ERRNOS.len() as u64) as usize];
            vworld::meter::begin_call();
            vworld::meter::set_errno(e);
            let r = self.snapshot();
            if let Some(msg) = vworld::meter::end_call() {
                let mut u = UNBOUNDED.lock().unwrap_or_else(|p| p.into_inner());
                if u.len() < 8 {
                    u.push(format!("snapshot(): {} (errno was {} when the call was made, {} signals delivered so far)", msg, e, vworld::meter::SIGNALS_DELIVERED.load(Ordering::Relaxed)));
                }
            }
            r
        }
    }

    pub fn calls() -> u64 {
        CALLS.load(Ordering::Relaxed)
    }

    pub fn drain_unbounded() -> Vec<String> {
        std::mem::take(&mut *UNBOUNDED.lock().unwrap_or_else(|p| p.into_inner()))
    }
}

//! History events and the oracles over them (C02, C03, C04, C11, C18).
//!
//! Events are recorded at the boundary of the code under test: before and after each
//! `snapshot()`, before and after each `write()`, at injected stops and at restarts. The monitor is
//! fed online, keeps the events for witnesses, and never influences the code under test.

use crate::record::{blend_origin, Decoded};
use vworld::json;
use vworld::serde_json::Value;

/// Upper bound on shared accesses for one snapshot() call (about 6 times what the retry cap of the
/// present implementation implies).
pub const ACCESS_BOUND: u64 = 50_000_000;

#[derive(Debug, Clone)]
pub enum Ev {
    Open { reader: usize, ok: bool, s: u64, p: u64 },
    Call { reader: usize, s: u64, p: u64 },
    Ret { reader: usize, result: RetVal, s: u64, p: u64, accesses: u64, entry_gen: Option<u16> },
    Begin { i: u64 },
    End { i: u64 },
    Stop { point: u64, site: String, op: String },
    Restart { existed_valid: bool },
    Note(String),
}

#[derive(Debug, Clone, PartialEq, Eq)]
pub enum RetVal {
    Rec(Decoded),
    Err(String),
}

impl Ev {
    pub fn to_json(&self) -> Value {
        match self {
            Ev::Open { reader, ok, s, p } => json!({"ev":"open","reader":reader,"ok":ok,"S":s,"P":p}),
            Ev::Call { reader, s, p } => json!({"ev":"call","reader":reader,"S":s,"P":p}),
            Ev::Ret { reader, result, s, p, accesses, entry_gen } => {
                let r = match result {
                    RetVal::Rec(Decoded::Initial) => json!("initial"),
                    RetVal::Rec(Decoded::Publication(i)) => json!(i),
                    RetVal::Rec(Decoded::Blend(w)) => json!({"blend": blend_origin(w)}),
                    RetVal::Err(e) => json!({"err": e}),
                };
                json!({"ev":"ret","reader":reader,"result":r,"S":s,"P":p,"accesses":accesses,"entry_gen":entry_gen})
            }
            Ev::Begin { i } => json!({"ev":"begin","i":i}),
            Ev::End { i } => json!({"ev":"end","i":i}),
            Ev::Stop { point, site, op } => json!({"ev":"stop","point":point,"site":site,"op":op}),
            Ev::Restart { existed_valid } => json!({"ev":"restart","existed_valid":existed_valid}),
            Ev::Note(s) => json!({"ev":"note","text":s}),
        }
    }
}

#[derive(Debug, Clone)]
pub struct Violation {
    /// Property whose oracle fired (C02, C03, C04, C11, C18).
    pub property: &'static str,
    /// Stable short signature of the kind of failure.
    pub sig: String,
    pub detail: String,
}

#[derive(Debug, Clone, Default)]
struct ReaderState {
    /// Index last returned (0 = initial record).
    last: u64,
    calls: u64,
    call_s: u64,
    call_p: u64,
    in_call: bool,
    attached: bool,
}

#[derive(Debug, Default, Clone)]
pub struct Counters {
    pub calls: u64,
    pub overlapped_calls: u64,
    pub idle_calls: u64,
    pub nondefault_snapshots: u64,
    pub publication_changes_seen: u64,
    pub exception_cases: u64,
    pub err_returns: u64,
    pub odd_entry_calls: u64,
    pub max_accesses: u64,
    pub stops: u64,
    pub restarts: u64,
    pub after_crash_calls: u64,
}

/// Online checker of one history.
pub struct Monitor {
    pub events: Vec<Ev>,
    pub violations: Vec<Violation>,
    pub counters: Counters,
    readers: Vec<ReaderState>,
    /// Index of the latest publication begun, and completed.
    pub s: u64,
    pub p: u64,
    /// True once a writer stop or restart happened in this history (C04 context).
    pub crashed: bool,
    pub keep_events: bool,
}

impl Monitor {
    pub fn new(readers: usize, base: u64, in_flight: bool) -> Monitor {
        Monitor {
            events: Vec::new(),
            violations: Vec::new(),
            counters: Counters::default(),
            readers: vec![ReaderState::default(); readers],
            s: if in_flight { base + 1 } else { base },
            p: base,
            crashed: false,
            keep_events: true,
        }
    }

    fn push(&mut self, ev: Ev) {
        if self.keep_events {
            self.events.push(ev);
        }
    }

    fn violate(&mut self, property: &'static str, sig: &str, detail: String) {
        // In a history with a writer stop or restart, snapshot integrity and order are C04 (a)/(b).
        let property = if self.crashed && (property == "C02" || property == "C03") { "C04" } else { property };
        self.violations.push(Violation { property, sig: sig.to_string(), detail });
    }

    pub fn note(&mut self, text: String) {
        self.push(Ev::Note(text));
    }

    pub fn open(&mut self, reader: usize, ok: bool) {
        let (s, p) = (self.s, self.p);
        self.readers[reader].attached = ok;
        self.push(Ev::Open { reader, ok, s, p });
    }

    pub fn begin(&mut self, i: u64) {
        self.s = i;
        self.push(Ev::Begin { i });
    }

    pub fn end(&mut self, i: u64) {
        self.p = i;
        self.push(Ev::End { i });
    }

    pub fn stop(&mut self, point: u64, site: &str, op: &str) {
        self.crashed = true;
        self.counters.stops += 1;
        self.push(Ev::Stop { point, site: site.to_string(), op: op.to_string() });
    }

    pub fn restart(&mut self, existed_valid: bool) {
        self.crashed = true;
        self.counters.restarts += 1;
        self.push(Ev::Restart { existed_valid });
    }

    pub fn call(&mut self, reader: usize) {
        let (s, p) = (self.s, self.p);
        let r = &mut self.readers[reader];
        r.in_call = true;
        r.call_s = s;
        r.call_p = p;
        r.calls += 1;
        self.push(Ev::Call { reader, s, p });
    }

    /// `entry_gen`: the generation value the call loaded first, if the hooks saw one.
    pub fn ret(&mut self, reader: usize, result: RetVal, accesses: u64, entry_gen: Option<u16>) {
        let (s, p) = (self.s, self.p);
        self.push(Ev::Ret { reader, result: result.clone(), s, p, accesses, entry_gen });
        let (call_s, call_p, last) = {
            let r = &self.readers[reader];
            (r.call_s, r.call_p, r.last)
        };
        self.readers[reader].in_call = false;
        self.counters.calls += 1;
        if self.crashed {
            self.counters.after_crash_calls += 1;
        }
        if accesses > self.counters.max_accesses {
            self.counters.max_accesses = accesses;
        }
        let idle = call_s == call_p && s == p && call_p == p;
        if idle {
            self.counters.idle_calls += 1;
        } else {
            self.counters.overlapped_calls += 1;
        }

        // C18: bounded work.
        if accesses > ACCESS_BOUND {
            self.violate("C18", "unbounded-accesses", format!("reader {} made {} shared accesses in one call", reader, accesses));
        }

        let idx = match &result {
            RetVal::Err(e) => {
                self.counters.err_returns += 1;
                // An error is never a wrong record; in an idle window it is a failure to catch up.
                if idle && p > 0 {
                    self.violate("C03", "error-in-idle-window", format!("reader {} got Err({}) with no update in flight, latest completed publication {}", reader, e, p));
                }
                if let Some(g) = entry_gen {
                    if g & 1 == 1 {
                        self.counters.odd_entry_calls += 1;
                        self.violate("C18", "odd-entry-not-cached", format!("reader {} entered at odd generation {} and got Err({}) instead of its cached record", reader, g, e));
                    }
                }
                return;
            }
            RetVal::Rec(Decoded::Blend(w)) => {
                self.violate("C02", "torn-snapshot", format!("reader {} returned a blend, words from publications {:?} (S={} P={})", reader, blend_origin(w), s, p));
                return;
            }
            RetVal::Rec(Decoded::Initial) => 0,
            RetVal::Rec(Decoded::Publication(i)) => *i,
        };
        if idx != 0 {
            self.counters.nondefault_snapshots += 1;
        }
        if idx != last {
            self.counters.publication_changes_seen += 1;
        }

        // C02: only completed publications are ever returned.
        if idx > p {
            self.violate("C02", "unpublished-record", format!("reader {} returned publication {} which was not complete at return (S={} P={})", reader, idx, s, p));
        }
        // C03a: order.
        if idx < last {
            self.violate("C03", "went-backwards", format!("reader {} returned publication {} after having returned {}", reader, idx, last));
        }
        // C03b / C04b: catch-up in an idle window.
        if idle && idx != p {
            let exempt = last > 0 && p > last && (p - last) % 32767 == 0 && idx == last;
            if exempt {
                self.counters.exception_cases += 1;
            } else {
                self.violate("C03", "stale-in-idle-window", format!("reader {} returned {} although publication {} was complete and no update in flight during the whole call (previous return {})", reader, idx, p, last));
            }
        }
        // C18: a call entered at an odd generation answers from the cache at once.
        if let Some(g) = entry_gen {
            if g & 1 == 1 {
                self.counters.odd_entry_calls += 1;
                if accesses > 4 {
                    self.violate("C18", "odd-entry-waited", format!("reader {} entered at odd generation {} and made {} shared accesses", reader, g, accesses));
                }
                if idx != last {
                    self.violate("C18", "odd-entry-not-cached", format!("reader {} entered at odd generation {} and returned {} instead of its cached {}", reader, g, idx, last));
                }
            }
        }
        self.readers[reader].last = idx;
    }

    pub fn witness(&self, max: usize) -> Value {
        let n = self.events.len();
        let from = n.saturating_sub(max);
        Value::Array(self.events[from..].iter().map(|e| e.to_json()).collect())
    }
}

//! Engine `sched`: the real reader and writer as OS threads passing a token, a seeded scheduler
//! deciding at every hook point who runs next, stop injection, and the online monitor.

use std::cell::RefCell;
use std::ffi::CString;
use std::os::unix::fs::{FileExt, MetadataExt};
use std::panic::{catch_unwind, AssertUnwindSafe};
use std::path::{Path, PathBuf};
use std::rc::Rc;
use std::sync::{Arc, Condvar, Mutex};

use clock_bound_shm::verif::{set_handler, Point};
use clock_bound_shm::{ShmReader, ShmWrite, ShmWriter};
use vworld::serde_json::Value;
use vworld::{json, Rng};

use crate::history::{Monitor, RetVal, Violation};
use crate::metered::Metered;
use crate::record::{decode, encode, segment_bytes, words_of_index, Decoded};

/// Logical step budget of one scenario; exceeding it makes the scenario inconclusive.
pub const STEP_LIMIT: u64 = 200_000_000;

#[derive(Debug, Clone, PartialEq)]
pub enum Start {
    NoFile,
    NoDir,
    Garbage(Vec<u8>),
    /// Header written by a wipe that was never followed by a publication.
    Wiped { version: u16 },
    /// A file that is not ours (wrong magic number) but whose other header fields and record
    /// look valid: it decodes to publication `base`, which nobody published here.
    Foreign { gen: u16, base: u64 },
    Valid { gen: u16, base: u64 },
    /// A valid, published segment whose header announces more than the 72 bytes this writer
    /// would create (another build's padding); the file is that long.
    ValidBig { gen: u16, base: u64, size: u32 },
    /// A writer died in the middle of publication base+1 after `words` words.
    ValidOdd { gen: u16, base: u64, words: usize },
}

impl Start {
    pub fn name(&self) -> &'static str {
        match self {
            Start::NoFile => "nofile",
            Start::NoDir => "nodir",
            Start::Garbage(_) => "garbage",
            Start::Wiped { .. } => "wiped",
            Start::Foreign { .. } => "foreign",
            Start::Valid { .. } => "valid-even",
            Start::ValidBig { .. } => "valid-bigger",
            Start::ValidOdd { .. } => "valid-odd",
        }
    }

    pub fn to_json(&self) -> Value {
        match self {
            Start::NoFile => json!({"kind":"nofile"}),
            Start::NoDir => json!({"kind":"nodir"}),
            Start::Garbage(b) => json!({"kind":"garbage","bytes":b}),
            Start::Wiped { version } => json!({"kind":"wiped","version":version}),
            Start::Foreign { gen, base } => json!({"kind":"foreign","gen":gen,"base":base}),
            Start::Valid { gen, base } => json!({"kind":"valid-even","gen":gen,"base":base}),
            Start::ValidBig { gen, base, size } => json!({"kind":"valid-bigger","gen":gen,"base":base,"size":size}),
            Start::ValidOdd { gen, base, words } => json!({"kind":"valid-odd","gen":gen,"base":base,"words":words}),
        }
    }

    pub fn from_json(v: &Value) -> Start {
        match v["kind"].as_str().unwrap() {
            "nofile" => Start::NoFile,
            "nodir" => Start::NoDir,
            "garbage" => Start::Garbage(v["bytes"].as_array().unwrap().iter().map(|b| b.as_u64().unwrap() as u8).collect()),
            "wiped" => Start::Wiped { version: v["version"].as_u64().unwrap() as u16 },
            "foreign" => Start::Foreign { gen: v["gen"].as_u64().unwrap() as u16, base: v["base"].as_u64().unwrap() },
            "valid-bigger" => Start::ValidBig { gen: v["gen"].as_u64().unwrap() as u16, base: v["base"].as_u64().unwrap(), size: v["size"].as_u64().unwrap() as u32 },
            "valid-even" => Start::Valid { gen: v["gen"].as_u64().unwrap() as u16, base: v["base"].as_u64().unwrap() },
            "valid-odd" => Start::ValidOdd { gen: v["gen"].as_u64().unwrap() as u16, base: v["base"].as_u64().unwrap(), words: v["words"].as_u64().unwrap() as usize },
            k => panic!("unknown start kind {}", k),
        }
    }

    /// (publications begun, publications completed, segment usable by clients) in this state.
    pub fn progress(&self) -> (u64, u64, bool) {
        match self {
            Start::Valid { base, .. } | Start::ValidBig { base, .. } => (*base, *base, true),
            Start::ValidOdd { base, .. } => (*base + 1, *base, true),
            _ => (0, 0, false),
        }
    }

    pub fn prepare(&self, path: &Path) {
        let _ = std::fs::remove_file(path);
        match self {
            Start::NoFile => {}
            Start::NoDir => {
                let _ = std::fs::remove_dir_all(path.parent().unwrap());
            }
            Start::Garbage(b) => std::fs::write(path, b).unwrap(),
            Start::Wiped { version } => std::fs::write(path, segment_bytes(*version, 0, 0)).unwrap(),
            Start::Foreign { gen, base } => {
                let mut bytes = segment_bytes(1, *gen, *base);
                bytes[0] ^= 0x5a;
                bytes[5] ^= 0x01;
                std::fs::write(path, bytes).unwrap()
            }
            Start::Valid { gen, base } => std::fs::write(path, segment_bytes(1, *gen, *base)).unwrap(),
            Start::ValidBig { gen, base, size } => {
                let mut bytes = segment_bytes(1, *gen, *base);
                bytes[8..12].copy_from_slice(&size.to_ne_bytes());
                bytes.resize(*size as usize, 0);
                std::fs::write(path, bytes).unwrap()
            }
            Start::ValidOdd { gen, base, words } => {
                let mut bytes = segment_bytes(1, *gen, *base);
                let next = words_of_index(*base + 1);
                for k in 0..*words {
                    bytes[16 + 8 * k..24 + 8 * k].copy_from_slice(&next[k].to_ne_bytes());
                }
                std::fs::write(path, bytes).unwrap()
            }
        }
    }
}

#[derive(Debug, Clone, Copy, PartialEq)]
pub enum WOp {
    New,
    Publish,
}

#[derive(Debug, Clone)]
pub struct ReaderProg {
    /// Do not start before this many publications are complete (or the writer is done).
    pub start_after_p: u64,
    pub calls: u32,
}

#[derive(Debug, Clone)]
pub struct Scenario {
    pub seed: u64,
    pub start: Start,
    pub writer: Vec<WOp>,
    /// (index of the writer op, k-th scheduling point within that op) at which the writer stops.
    pub stops: Vec<(usize, u64)>,
    /// (index of the writer op, k-th scheduling point within it, n): the writer stalls there until
    /// n more reader calls have completed (a descheduled daemon, not a dead one).
    pub pauses: Vec<(usize, u64, u64)>,
    pub readers: Vec<ReaderProg>,
    /// Probability denominators of switching away at a point, for the writer and for readers.
    pub writer_den: u64,
    pub reader_den: u64,
    /// The process environment the daemon and its clients run in (nothing the segment's content
    /// depends on, and nothing the properties allow to matter).
    pub env: Env,
}

/// Environment of one scenario: file-creation mask of the process, permission bits of a
/// pre-existing segment file, and whether the configured path is a symbolic link to the file.
#[derive(Debug, Clone, Copy, PartialEq)]
pub struct Env {
    pub umask: u32,
    pub mode: Option<u32>,
    pub symlink: bool,
    /// Modification time of the pre-existing file, in seconds before now (negative: in the future).
    /// A daemon only stores through its mapping: the inode's mtime is as old as the daemon that
    /// created it, or older.
    pub mtime_age_s: Option<i64>,
    /// Owner of the pre-existing file (the previous daemon ran under another account).
    pub owner: Option<u32>,
    /// The pre-existing file has a second name (a hard link, e.g. left by a backup tool).
    pub hardlink: bool,
}

impl Default for Env {
    fn default() -> Env {
        Env { umask: 0o022, mode: None, symlink: false, mtime_age_s: None, owner: None, hardlink: false }
    }
}

impl Env {
    pub fn random(rng: &mut Rng) -> Env {
        if rng.chance(1, 2) {
            return Env::default();
        }
        Env {
            umask: *rng.pick(&[0o022, 0o002, 0o000, 0o077, 0o027, 0o007]),
            mode: if rng.chance(1, 2) { Some(*rng.pick(&[0o644, 0o664, 0o666, 0o600, 0o660, 0o640])) } else { None },
            symlink: rng.chance(1, 4),
            mtime_age_s: if rng.chance(1, 3) { Some(*rng.pick(&[30i64, 1005, 86_400, 400 * 86_400, 20 * 365 * 86_400, -3600])) } else { None },
            owner: if rng.chance(1, 6) { Some(*rng.pick(&[12345u32, 65534])) } else { None },
            hardlink: rng.chance(1, 8),
        }
    }
    pub fn to_json(&self) -> Value {
        json!({"umask": self.umask, "mode": self.mode, "symlink": self.symlink, "mtime_age_s": self.mtime_age_s, "owner": self.owner, "hardlink": self.hardlink})
    }
    pub fn from_json(v: &Value) -> Env {
        if v.is_null() {
            return Env::default();
        }
        Env { umask: v["umask"].as_u64().unwrap_or(0o022) as u32, mode: v["mode"].as_u64().map(|m| m as u32), symlink: v["symlink"].as_bool().unwrap_or(false),
              mtime_age_s: v["mtime_age_s"].as_i64(), owner: v["owner"].as_u64().map(|m| m as u32), hardlink: v["hardlink"].as_bool().unwrap_or(false) }
    }
    pub fn name(&self) -> String {
        format!("umask{:03o}/{}{}{}{}{}", self.umask, self.mode.map(|m| format!("mode{:03o}", m)).unwrap_or_else(|| "mode-".into()), if self.symlink { "/symlink" } else { "" },
                self.mtime_age_s.map(|a| format!("/mtime-{}s", a)).unwrap_or_default(), self.owner.map(|o| format!("/uid{}", o)).unwrap_or_default(), if self.hardlink { "/hardlink" } else { "" })
    }
}

impl Scenario {
    pub fn to_json(&self) -> Value {
        json!({
            "seed": self.seed,
            "start": self.start.to_json(),
            "writer": self.writer.iter().map(|o| match o { WOp::New => "new", WOp::Publish => "publish" }).collect::<Vec<_>>(),
            "stops": self.stops.iter().map(|(a, b)| json!([a, b])).collect::<Vec<_>>(),
            "pauses": self.pauses.iter().map(|(a, b, c)| json!([a, b, c])).collect::<Vec<_>>(),
            "readers": self.readers.iter().map(|r| json!({"start_after_p": r.start_after_p, "calls": r.calls})).collect::<Vec<_>>(),
            "writer_den": self.writer_den,
            "reader_den": self.reader_den,
            "env": self.env.to_json(),
        })
    }

    pub fn from_json(v: &Value) -> Scenario {
        Scenario {
            seed: v["seed"].as_u64().unwrap(),
            start: Start::from_json(&v["start"]),
            writer: v["writer"].as_array().unwrap().iter().map(|o| if o.as_str().unwrap() == "new" { WOp::New } else { WOp::Publish }).collect(),
            stops: v["stops"].as_array().unwrap().iter().map(|s| (s[0].as_u64().unwrap() as usize, s[1].as_u64().unwrap())).collect(),
            pauses: v["pauses"].as_array().map(|a| a.iter().map(|s| (s[0].as_u64().unwrap() as usize, s[1].as_u64().unwrap(), s[2].as_u64().unwrap())).collect()).unwrap_or_default(),
            readers: v["readers"].as_array().unwrap().iter().map(|r| ReaderProg { start_after_p: r["start_after_p"].as_u64().unwrap(), calls: r["calls"].as_u64().unwrap() as u32 }).collect(),
            writer_den: v["writer_den"].as_u64().unwrap(),
            reader_den: v["reader_den"].as_u64().unwrap(),
            env: Env::from_json(&v["env"]),
        }
    }
}

struct StopToken;
struct AbortToken;
struct AccessBoundToken;

#[derive(Clone, Copy, PartialEq)]
enum Wait {
    None,
    /// Runnable once P >= n or the writer is done.
    Published(u64),
    WriterDone,
    /// Runnable once n reader calls have completed in total.
    ReaderCalls(u64),
}

struct TaskSt {
    alive: bool,
    wait: Wait,
}

struct St {
    current: usize,
    tasks: Vec<TaskSt>,
    rng: Rng,
    dens: Vec<u64>,
    monitor: Monitor,
    trace_hash: u64,
    steps: u64,
    switches: u64,
    writer_done: bool,
    aborting: bool,
}

const NOBODY: usize = usize::MAX;

impl St {
    fn runnable(&self, t: usize) -> bool {
        let task = &self.tasks[t];
        task.alive
            && match task.wait {
                Wait::None => true,
                Wait::Published(n) => self.monitor.p >= n || self.writer_done,
                Wait::WriterDone => self.writer_done,
                Wait::ReaderCalls(n) => self.monitor.counters.calls >= n,
            }
    }

    fn pick_other(&mut self, me: usize) -> Option<usize> {
        let cands: Vec<usize> = (0..self.tasks.len()).filter(|t| *t != me && self.runnable(*t)).collect();
        if cands.is_empty() {
            None
        } else {
            Some(cands[self.rng.below(cands.len() as u64) as usize])
        }
    }
}

pub struct Shared {
    m: Mutex<St>,
    cv: Condvar,
}

impl Shared {
    fn lock(&self) -> std::sync::MutexGuard<'_, St> {
        self.m.lock().unwrap_or_else(|e| e.into_inner())
    }

    fn with_monitor<R>(&self, f: impl FnOnce(&mut Monitor) -> R) -> R {
        let mut st = self.lock();
        f(&mut st.monitor)
    }

    fn wait_turn<'a>(&'a self, mut st: std::sync::MutexGuard<'a, St>, me: usize) -> std::sync::MutexGuard<'a, St> {
        if std::env::var_os("VERIF_SCHED_DEBUG").is_some() {
            eprintln!("task {} waits; current={} alive={:?}", me, st.current as isize, st.tasks.iter().map(|t| t.alive).collect::<Vec<_>>());
        }
        while st.current != me {
            st = self.cv.wait(st).unwrap_or_else(|e| e.into_inner());
        }
        st
    }

    /// Block until this task is given the token for the first time.
    fn task_start(&self, me: usize) {
        let st = self.lock();
        drop(self.wait_turn(st, me));
    }

    /// A scheduling point of task `me`.
    fn yield_point(&self, me: usize, site: u64) {
        let mut st = self.lock();
        st.steps += 1;
        st.trace_hash = (st.trace_hash ^ (me as u64 + 1).wrapping_mul(0x9E37_79B9_7F4A_7C15) ^ site).wrapping_mul(0x1000_0000_01B3);
        if st.steps > STEP_LIMIT {
            st.aborting = true;
        }
        if st.aborting {
            drop(st);
            std::panic::panic_any(AbortToken);
        }
        // Once the writer is gone (or stalled) readers cannot influence each other any more: let
        // each run on, and give the token back to a stalled writer as soon as it may continue.
        if me != 0 && (st.writer_done || matches!(st.tasks[0].wait, Wait::ReaderCalls(_))) {
            if !st.writer_done && st.runnable(0) {
                st.switches += 1;
                st.current = 0;
                self.cv.notify_all();
                drop(self.wait_turn(st, me));
            }
            return;
        }
        let den = st.dens[me];
        if den <= 1 || st.rng.below(den) == 0 {
            if let Some(next) = st.pick_other(me) {
                st.switches += 1;
                st.current = next;
                self.cv.notify_all();
                drop(self.wait_turn(st, me));
            }
        }
    }

    /// Give the token away until the wait condition holds.
    fn block(&self, me: usize, wait: Wait) {
        let mut st = self.lock();
        st.tasks[me].wait = wait;
        if !st.runnable(me) {
            match st.pick_other(me) {
                Some(next) => {
                    st.current = next;
                    self.cv.notify_all();
                    let mut st = self.wait_turn(st, me);
                    st.tasks[me].wait = Wait::None;
                    return;
                }
                None => {
                    // Nobody else can run: the condition can never become true, carry on.
                }
            }
        }
        st.tasks[me].wait = Wait::None;
    }

    fn task_exit(&self, me: usize, is_writer: bool) {
        let mut st = self.lock();
        st.tasks[me].alive = false;
        if is_writer {
            st.writer_done = true;
        }
        match st.pick_other(me) {
            Some(next) => st.current = next,
            None => {
                // Nobody is runnable: if a task is still waiting for a condition that can no longer
                // come true (e.g. a stalled writer waiting for reader calls), let it carry on.
                let waiting = (0..st.tasks.len()).find(|t| *t != me && st.tasks[*t].alive);
                st.current = waiting.unwrap_or(NOBODY);
            }
        }
        self.cv.notify_all();
    }
}

fn site_hash(site: &str, word: usize) -> u64 {
    let mut h = 0xcbf2_9ce4_8422_2325u64;
    for b in site.bytes() {
        h = (h ^ b as u64).wrapping_mul(0x1000_0000_01B3);
    }
    h ^ (word as u64).wrapping_mul(0x9E37_79B9)
}

fn is_pre(site: &str) -> bool {
    !site.ends_with(".post")
}

/// Independent observer of the generation field ("a conforming third-party reader").
struct GenObserver {
    file: Option<std::fs::File>,
    path: PathBuf,
}

impl GenObserver {
    fn read(&mut self) -> Option<u16> {
        if self.file.is_none() {
            self.file = std::fs::File::open(&self.path).ok();
        }
        let f = self.file.as_ref()?;
        let mut b = [0u8; 2];
        match f.read_at(&mut b, 14) {
            Ok(2) => Some(u16::from_ne_bytes(b)),
            _ => None,
        }
    }
}

struct WriterLocal {
    op_index: usize,
    op_name: &'static str,
    points_in_op: u64,
    stop_at: Option<u64>,
    pause_at: Option<(u64, u64)>,
    in_write: bool,
    words_started: bool,
    observer: GenObserver,
    published_once: bool,
    c11: Vec<Violation>,
    sites_seen: Vec<(usize, u64, String)>,
    record_sites: bool,
    stopped_site: Option<(u64, String)>,
}

fn file_state(path: &Path) -> Option<(u64, Vec<u8>)> {
    let meta = std::fs::metadata(path).ok()?;
    if !meta.is_file() {
        return None;
    }
    let bytes = std::fs::read(path).ok()?;
    Some((meta.ino(), bytes))
}

fn bytes_valid_segment(b: &[u8]) -> bool {
    if b.len() < 72 {
        return false;
    }
    let magic0 = u32::from_ne_bytes([b[0], b[1], b[2], b[3]]);
    let magic1 = u32::from_ne_bytes([b[4], b[5], b[6], b[7]]);
    let size = u32::from_ne_bytes([b[8], b[9], b[10], b[11]]);
    let version = u16::from_ne_bytes([b[12], b[13]]);
    let gen = u16::from_ne_bytes([b[14], b[15]]);
    magic0 == 0x414D5A4E && magic1 == 0x43420200 && size >= 72 && version != 0 && gen != 0
}

#[derive(Debug, Default, Clone)]
pub struct Outcome {
    pub violations: Vec<Violation>,
    pub witness: Value,
    pub inconclusive: Option<String>,
    pub trace_hash: u64,
    pub steps: u64,
    pub switches: u64,
    pub counters: crate::history::Counters,
    /// (op index, point, site) reached by the writer, when site recording was asked for.
    pub writer_sites: Vec<(usize, u64, String)>,
    pub stopped_sites: Vec<(u64, String, String)>,
    pub takeovers: u64,
    pub wipes: u64,
    pub fresh_reader_checks: u64,
    pub c11_observations: u64,
    pub final_p: u64,
}

/// Run one scenario on a fresh file under `dir`.
pub fn run_scenario(sc: &Scenario, dir: &Path, record_sites: bool, keep_events: bool) -> Outcome {
    let sub = dir.join("d");
    std::fs::create_dir_all(&sub).unwrap();
    let path = sub.join("shm");
    let _ = std::fs::remove_file(sub.join("shm.real"));
    // The environment applies to everything the scenario's tasks do (one scenario at a time per
    // process): files the writer creates get 0666 & !umask, as the daemon's would.
    unsafe { libc::umask(sc.env.umask as libc::mode_t) };
    let real = if sc.env.symlink && !matches!(sc.start, Start::NoDir) { sub.join("shm.real") } else { path.clone() };
    sc.start.prepare(&real);
    if real != path {
        let _ = std::fs::remove_file(&path);
        std::os::unix::fs::symlink(&real, &path).unwrap();
    }
    if let (Some(mode), true) = (sc.env.mode, real.exists()) {
        use std::os::unix::fs::PermissionsExt;
        std::fs::set_permissions(&real, std::fs::Permissions::from_mode(mode)).unwrap();
    }
    let _ = std::fs::remove_file(sub.join("shm.second-name"));
    if real.exists() {
        let c = CString::new(real.to_str().unwrap()).unwrap();
        if let Some(uid) = sc.env.owner {
            // (needs root; silently without effect otherwise)
            unsafe { libc::chown(c.as_ptr(), uid, u32::MAX) };
        }
        if sc.env.hardlink {
            let _ = std::fs::hard_link(&real, sub.join("shm.second-name"));
        }
        if let Some(age) = sc.env.mtime_age_s {
            let mut now = libc::timespec { tv_sec: 0, tv_nsec: 0 };
            unsafe { libc::syscall(libc::SYS_clock_gettime, libc::CLOCK_REALTIME as libc::c_long, &mut now as *mut libc::timespec) };
            let t = libc::timespec { tv_sec: now.tv_sec - age, tv_nsec: 0 };
            let times = [t, t];
            unsafe { libc::utimensat(libc::AT_FDCWD, c.as_ptr(), times.as_ptr(), 0) };
        }
    }
    let (s0, p0, _usable0) = sc.start.progress();

    let ntasks = 1 + sc.readers.len();
    let mut monitor = Monitor::new(sc.readers.len(), p0, s0 != p0);
    monitor.keep_events = keep_events;
    let mut dens = vec![sc.reader_den; ntasks];
    dens[0] = sc.writer_den;
    let shared = Arc::new(Shared {
        m: Mutex::new(St {
            current: NOBODY,
            tasks: (0..ntasks).map(|_| TaskSt { alive: true, wait: Wait::None }).collect(),
            rng: Rng::new(sc.seed ^ 0x5CED),
            dens,
            monitor,
            trace_hash: 0,
            steps: 0,
            switches: 0,
            writer_done: false,
            aborting: false,
        }),
        cv: Condvar::new(),
    });

    let extra = Arc::new(Mutex::new(Outcome::default()));

    let mut handles = Vec::new();
    // Writer task.
    {
        let shared = shared.clone();
        let sc = sc.clone();
        let path = path.clone();
        let extra = extra.clone();
        handles.push(std::thread::spawn(move || {
            shared.task_start(0);
            let r = catch_unwind(AssertUnwindSafe(|| writer_task(&shared, &sc, &path, record_sites, &extra)));
            set_handler(None);
            if let Err(payload) = r {
                if !payload.is::<AbortToken>() {
                    let msg = panic_text(&payload);
                    shared.with_monitor(|m| m.violations.push(Violation { property: "C04", sig: "writer-panic".into(), detail: format!("writer task panicked: {}", msg) }));
                }
            }
            shared.task_exit(0, true);
        }));
    }
    // Reader tasks.
    for (ri, prog) in sc.readers.iter().enumerate() {
        let shared = shared.clone();
        let prog = prog.clone();
        let path = path.clone();
        let me = ri + 1;
        handles.push(std::thread::spawn(move || {
            shared.task_start(me);
            let r = catch_unwind(AssertUnwindSafe(|| reader_task(&shared, me, ri, &prog, &path)));
            set_handler(None);
            if let Err(payload) = r {
                if payload.is::<AccessBoundToken>() {
                    shared.with_monitor(|m| m.violations.push(Violation { property: "C18", sig: "unbounded-accesses".into(), detail: format!("reader {} made more than {} shared accesses in one snapshot() call", ri, crate::history::ACCESS_BOUND) }));
                } else if !payload.is::<AbortToken>() {
                    let msg = panic_text(&payload);
                    shared.with_monitor(|m| m.violations.push(Violation { property: "C02", sig: "reader-panic".into(), detail: format!("reader {} panicked: {}", ri, msg) }));
                }
            }
            shared.task_exit(me, false);
        }));
    }
    // Hand the token to a first task.
    {
        let mut st = shared.lock();
        let first = st.pick_other(NOBODY).unwrap_or(0);
        st.current = first;
        shared.cv.notify_all();
    }
    for h in handles {
        let _ = h.join();
    }

    let mut out = extra.lock().unwrap().clone();
    let mut st = shared.lock();

    // Quiescent end state: a fresh client must be able to attach and read the latest publication.
    if !st.aborting && st.monitor.p >= 1 && st.monitor.s == st.monitor.p {
        out.fresh_reader_checks += 1;
        let cpath = CString::new(path.to_str().unwrap()).unwrap();
        match ShmReader::new(&cpath) {
            Ok(mut r) => match r.msnapshot() {
                Ok(c) => {
                    let d = decode(c);
                    if d != Decoded::Publication(st.monitor.p) {
                        let p = st.monitor.p;
                        st.monitor.violations.push(Violation { property: "C04", sig: "fresh-reader-wrong-record".into(), detail: format!("a fresh reader at the end returned {:?}, latest completed publication is {}", d, p) });
                    }
                }
                Err(e) => st.monitor.violations.push(Violation { property: "C04", sig: "fresh-reader-error".into(), detail: format!("a fresh reader at the end got {:?}", e) }),
            },
            Err(e) => {
                let p = st.monitor.p;
                st.monitor.violations.push(Violation { property: "C04", sig: "fresh-reader-cannot-attach".into(), detail: format!("a fresh reader cannot attach after {} publications: {:?}", p, e) })
            }
        }
    }

    for msg in crate::metered::drain_unbounded() {
        st.monitor.violations.push(Violation { property: "C18", sig: "unbounded-work-in-one-call".into(), detail: msg });
    }
    out.violations.extend(st.monitor.violations.iter().cloned());
    if st.aborting {
        out.inconclusive = Some(format!("step limit {} reached", STEP_LIMIT));
    }
    out.trace_hash = st.trace_hash;
    out.steps = st.steps;
    out.switches = st.switches;
    out.counters = st.monitor.counters.clone();
    out.final_p = st.monitor.p;
    if !out.violations.is_empty() {
        out.witness = st.monitor.witness(80);
    }
    drop(st);
    let _ = std::fs::remove_dir_all(&sub);
    out
}

fn panic_text(payload: &Box<dyn std::any::Any + Send>) -> String {
    if let Some(s) = payload.downcast_ref::<&str>() {
        s.to_string()
    } else if let Some(s) = payload.downcast_ref::<String>() {
        s.clone()
    } else {
        "non-string panic payload".to_string()
    }
}

fn writer_task(shared: &Arc<Shared>, sc: &Scenario, path: &Path, record_sites: bool, extra: &Arc<Mutex<Outcome>>) {
    let local = Rc::new(RefCell::new(WriterLocal {
        op_index: 0,
        op_name: "",
        points_in_op: 0,
        stop_at: None,
        pause_at: None,
        in_write: false,
        words_started: false,
        observer: GenObserver { file: None, path: path.to_path_buf() },
        published_once: sc.start.progress().1 > 0,
        c11: Vec::new(),
        sites_seen: Vec::new(),
        record_sites,
        stopped_site: None,
    }));

    let install = |local: &Rc<RefCell<WriterLocal>>, shared: &Arc<Shared>| {
        let l = local.clone();
        let sh = shared.clone();
        set_handler(Some(Box::new(move |p: &Point| {
            let pre = is_pre(p.site);
            {
                let mut w = l.borrow_mut();
                // C11 observations: what a third party sees in the file at this very point.
                if p.site.starts_with("wword") {
                    w.words_started = true;
                    if let Some(g) = w.observer.read() {
                        if g & 1 == 0 {
                            let v = Violation { property: "C11", sig: "even-during-update".into(), detail: format!("generation {} is even while record word {} is being written ({})", g, p.word, p.site) };
                            w.c11.push(v);
                        }
                    }
                } else if w.published_once {
                    if let Some(0) = w.observer.read() {
                        let v = Violation { property: "C11", sig: "generation-zero".into(), detail: format!("generation reads 0 at writer point {} after a publication completed", p.site) };
                        w.c11.push(v);
                    }
                }
                if !pre {
                    return;
                }
                w.points_in_op += 1;
                if w.record_sites {
                    let entry = (w.op_index, w.points_in_op, format!("{}{}", p.site, if p.site.starts_with("wword") { format!("[{}]", p.word) } else { String::new() }));
                    w.sites_seen.push(entry);
                }
                if w.stop_at == Some(w.points_in_op) {
                    w.stopped_site = Some((w.points_in_op, format!("{}[{}]", p.site, p.word)));
                    drop(w);
                    std::panic::panic_any(StopToken);
                }
                if let Some((k, n)) = w.pause_at {
                    if k == w.points_in_op {
                        drop(w);
                        let target = sh.with_monitor(|m| m.counters.calls) + n;
                        sh.with_monitor(|m| m.note(format!("writer stalls at {}[{}] until {} reader calls have completed", p.site, p.word, target)));
                        sh.block(0, Wait::ReaderCalls(target));
                        return;
                    }
                }
            }
            sh.yield_point(0, site_hash(p.site, p.word));
        })));
    };

    let mut writer: Option<ShmWriter> = None;
    let mut pending_fresh = false;
    let mut op = 0usize;
    let mut next_index = sc.start.progress().0 + 1;
    while op < sc.writer.len() {
        let kind = sc.writer[op];
        let stop_at = sc.stops.iter().find(|(o, _)| *o == op).map(|(_, k)| *k);
        {
            let mut w = local.borrow_mut();
            w.op_index = op;
            w.op_name = if kind == WOp::New { "new" } else { "write" };
            w.points_in_op = 0;
            w.stop_at = stop_at;
            w.pause_at = sc.pauses.iter().find(|(o, _, _)| *o == op).map(|(_, k, n)| (*k, *n));
            w.in_write = kind == WOp::Publish;
            w.words_started = false;
            w.stopped_site = None;
        }
        install(&local, shared);
        shared.yield_point(0, 0x0b0 + op as u64);
        let result = match kind {
            WOp::New => {
                // A restart: the previous writer object goes away first (munmap only).
                writer = None;
                let before = file_state(path);
                let was_valid = before.as_ref().map(|(_, b)| bytes_valid_segment(b)).unwrap_or(false);
                if op > 0 {
                    shared.with_monitor(|m| m.restart(was_valid));
                }
                let r = catch_unwind(AssertUnwindSafe(|| ShmWriter::new(path)));
                match r {
                    Ok(Ok(w)) => {
                        set_handler(None);
                        {
                            use std::os::unix::io::AsRawFd;
                            let keep: Vec<i32> = local.borrow().observer.file.as_ref().map(|f| vec![f.as_raw_fd()]).unwrap_or_default();
                            vworld::close_fds_pointing_to(path, &keep);
                        }
                        let after = file_state(path);
                        let mut ex = extra.lock().unwrap();
                        if was_valid {
                            ex.takeovers += 1;
                            let (ino0, b0) = before.unwrap();
                            match after {
                                Some((ino1, b1)) => {
                                    if ino0 != ino1 || b0 != b1 {
                                        let diff: Vec<usize> = (0..b0.len().min(b1.len())).filter(|k| b0[*k] != b1[*k]).collect();
                                        shared.with_monitor(|m| m.violations.push(Violation { property: "C04", sig: "valid-segment-modified-by-restart".into(), detail: format!("start-up over a valid segment changed it: inode {} -> {}, length {} -> {}, differing byte offsets {:?}", ino0, ino1, b0.len(), b1.len(), diff) }));
                                    }
                                }
                                None => shared.with_monitor(|m| m.violations.push(Violation { property: "C04", sig: "valid-segment-removed-by-restart".into(), detail: "the segment file is gone after start-up".into() })),
                            }
                        } else {
                            ex.wipes += 1;
                        }
                        drop(ex);
                        writer = Some(w);
                        Ok(!was_valid)
                    }
                    Ok(Err(e)) => {
                        shared.with_monitor(|m| m.violations.push(Violation { property: "C04", sig: "startup-failed".into(), detail: format!("ShmWriter::new failed: {}", e) }));
                        return;
                    }
                    Err(payload) => Err(payload),
                }
            }
            WOp::Publish => {
                let i = next_index;
                let w = match writer.as_mut() {
                    Some(w) => w,
                    None => {
                        op += 1;
                        continue;
                    }
                };
                let g_before = local.borrow_mut().observer.read();
                shared.with_monitor(|m| m.begin(i));
                next_index += 1;
                let rec = encode(i);
                let r = catch_unwind(AssertUnwindSafe(|| w.write(&rec)));
                match r {
                    Ok(()) => {
                        shared.with_monitor(|m| m.end(i));
                        set_handler(None);
                        let mut l = local.borrow_mut();
                        l.published_once = true;
                        let g_after = l.observer.read();
                        extra.lock().unwrap().c11_observations += 1;
                        if let Some(g) = g_after {
                            if g & 1 == 1 || g == 0 || Some(g) == g_before {
                                l.c11.push(Violation { property: "C11", sig: "bad-generation-after-update".into(), detail: format!("generation {:?} before, {} after a completed update (must be even, non-zero and different)", g_before, g) });
                            }
                        }
                        if !l.words_started {
                            l.c11.push(Violation { property: "C11", sig: "no-word-written".into(), detail: "write() completed without the hooks seeing a record word written".into() });
                        }
                        Ok(false)
                    }
                    Err(payload) => Err(payload),
                }
            }
        };
        match result {
            Ok(check_fresh) => {
                // After start-up over an unusable file, the first completed publication must be
                // readable by a new client.
                if kind == WOp::New {
                    pending_fresh = check_fresh;
                }
                if kind == WOp::Publish {
                    let first_after_wipe = pending_fresh;
                    pending_fresh = false;
                    if first_after_wipe {
                        let expected = next_index - 1;
                        set_handler(None);
                        let cpath = CString::new(path.to_str().unwrap()).unwrap();
                        extra.lock().unwrap().fresh_reader_checks += 1;
                        let verdict = match ShmReader::new(&cpath) {
                            Ok(mut r) => match r.msnapshot() {
                                Ok(c) => {
                                    let d = decode(c);
                                    if d == Decoded::Publication(expected) { None } else { Some(format!("returned {:?}, expected publication {}", d, expected)) }
                                }
                                Err(e) => Some(format!("snapshot error {:?}", e)),
                            },
                            Err(e) => Some(format!("cannot attach: {:?}", e)),
                        };
                        if let Some(text) = verdict {
                            shared.with_monitor(|m| m.violations.push(Violation { property: "C04", sig: "new-client-after-first-publication".into(), detail: format!("after start-up and a first publication a new client {}", text) }));
                        }
                    }
                }
                op += 1;
            }
            Err(payload) => {
                if payload.is::<StopToken>() {
                    let (k, site) = local.borrow().stopped_site.clone().unwrap_or((0, "?".into()));
                    let opname = local.borrow().op_name;
                    shared.with_monitor(|m| m.stop(k, &site, opname));
                    extra.lock().unwrap().stopped_sites.push((k, site, opname.to_string()));
                    // The process is gone: its mapping disappears, the file keeps its state.
                    writer = None;
                    // Skip to the next start-up, if any.
                    op += 1;
                    while op < sc.writer.len() && sc.writer[op] != WOp::New {
                        op += 1;
                    }
                } else {
                    std::panic::resume_unwind(payload);
                }
            }
        }
    }
    set_handler(None);
    drop(writer);
    let mut l = local.borrow_mut();
    let c11: Vec<Violation> = l.c11.drain(..).collect();
    shared.with_monitor(|m| m.violations.extend(c11));
    extra.lock().unwrap().writer_sites = std::mem::take(&mut l.sites_seen);
}

struct ReaderLocal {
    accesses: u64,
    entry_gen: Option<u16>,
    zero_loads: Vec<String>,
}

fn reader_task(shared: &Arc<Shared>, me: usize, ri: usize, prog: &ReaderProg, path: &Path) {
    shared.block(me, Wait::Published(prog.start_after_p));
    let cpath = CString::new(path.to_str().unwrap()).unwrap();

    let local = Rc::new(RefCell::new(ReaderLocal { accesses: 0, entry_gen: None, zero_loads: Vec::new() }));

    // Attach, retrying a few times while the segment is not usable yet.
    let mut reader: Option<ShmReader> = None;
    for _attempt in 0..6 {
        // Opening is schedulable too (a client may attach at any instant of an update); its
        // accesses are not attributed to a snapshot() call.
        reinstall_reader_handler(&local, shared, me);
        let r = ShmReader::new(&cpath);
        {
            let mut l = local.borrow_mut();
            l.accesses = 0;
            l.entry_gen = None;
            l.zero_loads.clear();
        }
        match r {
            Ok(r) => {
                shared.with_monitor(|m| m.open(ri, true));
                reader = Some(r);
                break;
            }
            Err(_) => {
                shared.with_monitor(|m| m.open(ri, false));
                let p_now = shared.with_monitor(|m| m.p);
                shared.yield_point(me, 0x0e0);
                shared.block(me, Wait::Published(p_now + 1));
            }
        }
    }
    let mut reader = match reader {
        Some(r) => r,
        None => return,
    };

    let total = prog.calls as u64 + 1;
    for c in 0..total {
        if c == total - 1 {
            // The last call is made once the writer is done: a quiescent check.
            shared.block(me, Wait::WriterDone);
        } else {
            shared.yield_point(me, 0x0c0);
        }
        {
            let mut r = local.borrow_mut();
            r.accesses = 0;
            r.entry_gen = None;
        }
        shared.with_monitor(|m| m.call(ri));
        let result = match reader.msnapshot() {
            Ok(c) => RetVal::Rec(decode(c)),
            Err(e) => RetVal::Err(format!("{:?}", e)),
        };
        let (accesses, entry_gen, zeros) = {
            let mut r = local.borrow_mut();
            (r.accesses, r.entry_gen, std::mem::take(&mut r.zero_loads))
        };
        shared.with_monitor(|m| {
            m.ret(ri, result, accesses, entry_gen);
            for z in zeros {
                m.violations.push(Violation { property: "C04", sig: "attached-reader-saw-emptied-segment".into(), detail: format!("attached reader {}: {}", ri, z) });
            }
        });
    }
    set_handler(None);
}

fn reinstall_reader_handler(local: &Rc<RefCell<ReaderLocal>>, shared: &Arc<Shared>, me: usize) {
    let l = local.clone();
    let sh = shared.clone();
    set_handler(Some(Box::new(move |p: &Point| {
        if is_pre(p.site) {
            if p.site == "load.pre" || p.site == "rword.pre" {
                let n = {
                    let mut r = l.borrow_mut();
                    r.accesses += 1;
                    r.accesses
                };
                if n > crate::history::ACCESS_BOUND {
                    std::panic::panic_any(AccessBoundToken);
                }
            }
            sh.yield_point(me, site_hash(p.site, p.word));
        } else if p.site == "load.post" {
            let off = p.addr & 0xfff;
            let mut r = l.borrow_mut();
            if off == 14 && r.entry_gen.is_none() {
                r.entry_gen = Some(p.value as u16);
            }
            if (off == 12 || off == 14) && p.value == 0 {
                r.zero_loads.push(format!("{} loaded 0", if off == 12 { "version" } else { "generation" }));
            }
        }
    })));
}

/// Silence the panic messages of injected stops.
pub fn install_quiet_panic_hook() {
    let default = std::panic::take_hook();
    std::panic::set_hook(Box::new(move |info| {
        let p = info.payload();
        if p.is::<StopToken>() || p.is::<AbortToken>() || p.is::<AccessBoundToken>() || p.is::<u8>() || p.downcast_ref::<&str>().map_or(false, |s| s.contains("access bound exceeded")) {
            return;
        }
        default(info);
    }));
}

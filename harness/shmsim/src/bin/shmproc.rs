//! Engine `proc`: real processes over a real segment file, production build (guard off): the
//! un-substituted `ptr::write` / `read_volatile` data path races for real.
//!
//!   shmproc writer <path>            start up (ShmWriter::new), continue the publication sequence
//!                                    found in the file, publish as fast as possible until killed
//!   shmproc reader <path> <id>       attach (retrying), call snapshot() in a tight loop, check
//!                                    every result; "Q" on stdin -> one more call, answer "A <index>";
//!                                    "E" on stdin -> print a JSON summary and exit

use std::ffi::CString;
use std::io::{BufRead, Write};
use std::path::Path;
use std::sync::atomic::{AtomicBool, AtomicU64, Ordering};
use std::sync::Arc;

use clock_bound_shm::{ShmReader, ShmWrite, ShmWriter};
use shmsim::record::{blend_origin, decode, decode_words, encode, Decoded};

fn file_words(path: &str) -> Option<(u16, [u64; 7])> {
    let b = std::fs::read(path).ok()?;
    if b.len() < 72 {
        return None;
    }
    let gen = u16::from_ne_bytes([b[14], b[15]]);
    let mut w = [0u64; 7];
    for (k, x) in w.iter_mut().enumerate() {
        *x = u64::from_ne_bytes(b[16 + 8 * k..24 + 8 * k].try_into().unwrap());
    }
    Some((gen, w))
}

fn writer(path: &str) {
    // Publication indices carry the generation the segment will have once the publication is
    // complete (low 16 bits) and a wrap counter (high bits): a reader's answer then tells which
    // generation it was taken at, which is what the documented 32767-collision exemption needs.
    let mut epoch = 0u64;
    let mut last_low = 0u64;
    if let Some((_, w)) = file_words(path) {
        for (k, x) in w.iter().enumerate().take(5) {
            if *x % 8 == k as u64 + 1 {
                let idx = x / 8;
                if (idx >> 16, idx & 0xffff) > (epoch, last_low) {
                    epoch = idx >> 16;
                    last_low = idx & 0xffff;
                }
            }
        }
    }
    let mut wr = ShmWriter::new(Path::new(path)).expect("ShmWriter::new");
    // An own read-only view of the segment (a plain load, so that most of the time is spent inside
    // updates and kills land there often).
    let f = std::fs::File::open(path).expect("open segment");
    let view = unsafe {
        use std::os::unix::io::AsRawFd;
        libc::mmap(std::ptr::null_mut(), 72, libc::PROT_READ, libc::MAP_SHARED, f.as_raw_fd(), 0)
    };
    assert!(view != libc::MAP_FAILED);
    let gen_ptr = unsafe { (view as *const u8).add(14) as *const u16 };
    let mut n = 0u64;
    loop {
        let g = unsafe { gen_ptr.read_volatile() };
        let mut g2 = if g & 1 == 0 { g.wrapping_add(2) } else { g.wrapping_add(1) };
        if g2 == 0 {
            g2 = 2;
        }
        if (g2 as u64) <= last_low {
            epoch += 1;
        }
        last_low = g2 as u64;
        let i = (epoch << 16) | g2 as u64;
        wr.write(&encode(i.max(1)));
        n += 1;
        if n % 64 == 0 {
            // Leave the segment quiescent for a moment now and then.
            for _ in 0..(n % 1000) {
                std::hint::spin_loop();
            }
        }
    }
}

fn reader(path: &str, id: &str) {
    let cpath = CString::new(path).unwrap();
    let mut r = loop {
        match ShmReader::new(&cpath) {
            Ok(r) => break r,
            Err(_) => std::thread::sleep(std::time::Duration::from_millis(1)),
        }
    };
    let query = Arc::new(AtomicU64::new(0));
    let end = Arc::new(AtomicBool::new(false));
    {
        let (q, e) = (query.clone(), end.clone());
        std::thread::spawn(move || {
            let stdin = std::io::stdin();
            for line in stdin.lock().lines() {
                match line.as_deref() {
                    Ok("Q") => {
                        q.fetch_add(1, Ordering::SeqCst);
                    }
                    Ok("E") | Err(_) => {
                        e.store(true, Ordering::SeqCst);
                        return;
                    }
                    _ => {}
                }
            }
            e.store(true, Ordering::SeqCst);
        });
    }
    let mut answered = 0u64;
    let (mut calls, mut changes, mut errors) = (0u64, 0u64, 0u64);
    let mut last = 0u64;
    let mut violations: Vec<String> = Vec::new();
    let out = std::io::stdout();
    loop {
        let res = r.snapshot().map(decode);
        calls += 1;
        let idx = match res {
            Ok(Decoded::Initial) => 0,
            Ok(Decoded::Publication(i)) => i,
            Ok(Decoded::Blend(w)) => {
                if violations.len() < 5 {
                    // Indices carry (wrap count << 16 | generation): how far apart are the parts?
                    let origin = blend_origin(&w);
                    let pubs: Vec<u64> = origin.iter().flat_map(|s| s.split('/').filter_map(|t| t.parse::<u64>().ok()).collect::<Vec<_>>()).map(|i| (i >> 16) * 32767 + (i & 0xffff) / 2).collect();
                    let span = pubs.iter().max().unwrap_or(&0) - pubs.iter().min().unwrap_or(&0);
                    if span >= 30000 {
                        // the copy spanned a whole cycle of the 16-bit generation (the reader was
                        // descheduled while ~32767 k publications completed): the known ABA of the protocol
                        violations.push(format!("C02 generation-aba-blend: reader {} returned words of publications {:?}, {} publications apart: its copy spanned a whole cycle of the 16-bit generation and the re-check met the same value (call {})", id, origin, span, calls));
                    } else {
                        violations.push(format!("C02 torn-snapshot: reader {} returned words of publications {:?} (call {})", id, origin, calls));
                    }
                }
                last
            }
            Err(e) => {
                // Legitimate: the retry cap was reached because the writer died mid-update while
                // this call was copying (C18 allows the cached record or an error).
                let _ = e;
                errors += 1;
                last
            }
        };
        if idx < last && violations.len() < 5 {
            violations.push(format!("C03 went-backwards: reader {} returned {} after {} (call {})", id, idx, last, calls));
        }
        if idx != last {
            changes += 1;
        }
        last = idx;
        if calls % 256 == 0 || query.load(Ordering::SeqCst) > answered {
            if end.load(Ordering::SeqCst) {
                break;
            }
            let q = query.load(Ordering::SeqCst);
            if q > answered {
                answered = q;
                // One dedicated call for the supervisor's quiescent comparison.
                let a = match r.snapshot().map(decode) {
                    Ok(Decoded::Initial) => "0".to_string(),
                    Ok(Decoded::Publication(i)) => {
                        last = last.max(i);
                        format!("{}", i)
                    }
                    Ok(Decoded::Blend(w)) => format!("blend:{:?}", blend_origin(&w)),
                    Err(e) => format!("err:{:?}", e),
                };
                let mut o = out.lock();
                writeln!(o, "A {}", a).unwrap();
                o.flush().unwrap();
            }
        }
    }
    let mut o = out.lock();
    writeln!(o, "S {{\"reader\":\"{}\",\"calls\":{},\"changes\":{},\"errors\":{},\"last\":{},\"violations\":{:?}}}", id, calls, changes, errors, last, violations).unwrap();
    o.flush().unwrap();
}

fn main() {
    let args: Vec<String> = std::env::args().collect();
    match args.get(1).map(|s| s.as_str()) {
        Some("writer") => writer(&args[2]),
        Some("reader") => reader(&args[2], args.get(3).map(|s| s.as_str()).unwrap_or("0")),
        Some("decode") => {
            // helper for the supervisor: decode the file's record
            match file_words(&args[2]) {
                Some((g, w)) => println!("{} {:?}", g, decode_words(&w)),
                None => println!("none"),
            }
        }
        _ => eprintln!("usage: shmproc writer <path> | reader <path> <id> | decode <path>"),
    }
}

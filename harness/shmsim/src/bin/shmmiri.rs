//! Engine `miri`: the hooked reader and writer as real threads over a heap segment, meant to run
//! under `cargo +nightly miri run`. Miri sees the memory orderings written in the repository and
//! applies its weak-memory emulation; the point handler adds seeded `yield_now()` calls so that
//! context switches land between the generation stores and inside the word copy.
//!
//! Usage: shmmiri <seed> <batch> <mode>      mode: c02 (no harness synchronisation) | c03 (S/P
//! counters as SeqCst atomics, idle-window catch-up oracle) | c04 (writer stops and restarts)
//! Prints one line `RESULT {json}`.

use std::panic::{catch_unwind, AssertUnwindSafe};
use std::sync::atomic::{AtomicU64, Ordering};
use std::sync::Arc;

use clock_bound_shm::verif::{set_handler, Point};
use clock_bound_shm::{ShmReader, ShmWrite, ShmWriter};
use shmsim::record::{blend_origin, decode, encode, words_of_index, Decoded};
use vworld::{json, Rng};

#[derive(Clone, Copy)]
struct Seg(*mut u8);
unsafe impl Send for Seg {}
unsafe impl Sync for Seg {}

struct StopToken;

#[derive(Debug)]
struct CallLog {
    result: Result<Decoded, String>,
    /// (S, P) before the call and after it, in c03 mode.
    window: Option<(u64, u64, u64, u64)>,
}

fn init_segment(words: &mut [u64; 9], gen: u16, base: u64) {
    let mut hdr = [0u8; 16];
    hdr[0..4].copy_from_slice(&0x414D5A4Eu32.to_ne_bytes());
    hdr[4..8].copy_from_slice(&0x43420200u32.to_ne_bytes());
    hdr[8..12].copy_from_slice(&72u32.to_ne_bytes());
    hdr[12..14].copy_from_slice(&1u16.to_ne_bytes());
    hdr[14..16].copy_from_slice(&gen.to_ne_bytes());
    words[0] = u64::from_ne_bytes(hdr[0..8].try_into().unwrap());
    words[1] = u64::from_ne_bytes(hdr[8..16].try_into().unwrap());
    let body = if base == 0 { [0u64; 7] } else { words_of_index(base) };
    words[2..9].copy_from_slice(&body);
}

struct ScenarioResult {
    violations: Vec<String>,
    calls: u64,
    nondefault: u64,
    changes: u64,
    idle_calls: u64,
    stops: u64,
    sample: String,
}

fn run_scenario(seed: u64, mode: &str) -> ScenarioResult {
    let mut rng = Rng::new(seed);
    let base = 1 + rng.below(50);
    let gen: u16 = match rng.below(3) {
        0 => 2,
        1 => 65532,
        _ => (2 * (1 + rng.below(32000))) as u16,
    };
    let pubs = 2 + rng.below(5);
    let nreaders = 1 + rng.below(2) as usize;
    let calls = 4 + rng.below(8);
    let stop_at: Option<u64> = if mode == "c04" { Some(1 + rng.below(11)) } else { None };
    let stop_pub = 1 + rng.below(pubs);
    let wden = *rng.pick(&[2u64, 3, 4, 8]);
    let rden = *rng.pick(&[4u64, 8, 16, 32]);

    let mut words = Box::new([0u64; 9]);
    init_segment(&mut words, gen, base);
    let seg = Seg(Box::into_raw(words) as *mut u8);
    let sync = mode != "c02";
    let s_ctr = Arc::new(AtomicU64::new(base));
    let p_ctr = Arc::new(AtomicU64::new(base));

    // Writer thread.
    let wseed = rng.next();
    let (s_w, p_w) = (s_ctr.clone(), p_ctr.clone());
    let writer = std::thread::spawn(move || {
        let seg = seg;
        let mut wrng = Rng::new(wseed);
        let mut stops = 0u64;
        let mut writer = unsafe { ShmWriter::verif_from_raw(seg.0) };
        let mut i = base;
        let mut n = 0;
        let mut total = pubs;
        while n < total {
            n += 1;
            i += 1;
            let count = std::rc::Rc::new(std::cell::Cell::new(0u64));
            {
                let count = count.clone();
                let mut hr = wrng.fork(n);
                let stop_here = if stop_at.is_some() && n == stop_pub { stop_at } else { None };
                set_handler(Some(Box::new(move |p: &Point| {
                    if p.site.ends_with(".post") {
                        return;
                    }
                    count.set(count.get() + 1);
                    if Some(count.get()) == stop_here {
                        std::panic::panic_any(StopToken);
                    }
                    if hr.below(wden) == 0 {
                        std::thread::yield_now();
                    }
                })));
            }
            if sync {
                s_w.store(i, Ordering::SeqCst);
            }
            let rec = encode(i);
            let r = catch_unwind(AssertUnwindSafe(|| writer.write(&rec)));
            set_handler(None);
            match r {
                Ok(()) => {
                    if sync {
                        p_w.store(i, Ordering::SeqCst);
                    }
                }
                Err(payload) => {
                    if !payload.is::<StopToken>() {
                        std::panic::resume_unwind(payload);
                    }
                    // The daemon died; a new one takes the segment over, and publishes at least once
                    // more (a generation left odd for ever makes readers spin to their retry cap,
                    // which is C18's subject and far too slow under an interpreter).
                    stops += 1;
                    if n == total {
                        total += 1;
                    }
                    drop(writer);
                    writer = unsafe { ShmWriter::verif_from_raw(seg.0) };
                }
            }
            if wrng.chance(1, 3) {
                std::thread::yield_now();
            }
        }
        drop(writer);
        (stops, i)
    });

    // Reader threads.
    let mut readers = Vec::new();
    for r in 0..nreaders {
        let rseed = rng.next() ^ r as u64;
        let (s_r, p_r) = (s_ctr.clone(), p_ctr.clone());
        readers.push(std::thread::spawn(move || {
            let seg = seg;
            let mut rrng = Rng::new(rseed);
            let mut hr = rrng.fork(99);
            set_handler(Some(Box::new(move |p: &Point| {
                if p.site.ends_with(".post") {
                    return;
                }
                if hr.below(rden) == 0 {
                    std::thread::yield_now();
                }
            })));
            let mut reader = unsafe { ShmReader::verif_from_raw(seg.0 as *const u8) };
            let mut log = Vec::new();
            for _ in 0..calls {
                let before = if sync { Some((s_r.load(Ordering::SeqCst), p_r.load(Ordering::SeqCst))) } else { None };
                let result = match reader.snapshot() {
                    Ok(c) => Ok(decode(c)),
                    Err(e) => Err(format!("{:?}", e)),
                };
                let window = before.map(|(s, p)| {
                    let p2 = p_r.load(Ordering::SeqCst);
                    let s2 = s_r.load(Ordering::SeqCst);
                    (s, p, s2, p2)
                });
                log.push(CallLog { result, window });
                if rrng.chance(1, 2) {
                    std::thread::yield_now();
                }
            }
            set_handler(None);
            log
        }));
    }

    let (stops, last_index) = writer.join().expect("writer thread");
    let mut out = ScenarioResult { violations: Vec::new(), calls: 0, nondefault: 0, changes: 0, idle_calls: 0, stops, sample: String::new() };
    for (ri, h) in readers.into_iter().enumerate() {
        let log = h.join().expect("reader thread");
        let mut last = 0u64;
        let mut seq = Vec::new();
        for c in log.iter() {
            out.calls += 1;
            match &c.result {
                Err(e) => out.violations.push(format!("C03 error-return: reader {} got Err({})", ri, e)),
                Ok(Decoded::Blend(w)) => out.violations.push(format!("C02 torn-snapshot: reader {} returned words of publications {:?} (base {}, {} publications)", ri, blend_origin(w), base, pubs)),
                Ok(d) => {
                    let idx = match d {
                        Decoded::Publication(i) => *i,
                        _ => 0,
                    };
                    seq.push(idx);
                    if idx != 0 {
                        out.nondefault += 1;
                    }
                    if idx != 0 && (idx < base || idx > last_index) {
                        out.violations.push(format!("C02 unpublished-record: reader {} returned publication {} outside {}..={}", ri, idx, base, last_index));
                    }
                    if idx < last {
                        out.violations.push(format!("C03 went-backwards: reader {} returned {} after {}", ri, idx, last));
                    }
                    if idx != last {
                        out.changes += 1;
                    }
                    if let Some((s, p, s2, p2)) = c.window {
                        if s == p && s2 == p2 && p == p2 {
                            out.idle_calls += 1;
                            // Older than the latest completed publication = failed to catch up. (Newer can
                            // only mean the next update had begun by the time the call looked: not stale.)
                            if idx < p {
                                out.violations.push(format!("C03 stale-in-idle-window: reader {} returned {} with publication {} complete and none in flight", ri, idx, p));
                            }
                        }
                    }
                    last = idx;
                }
            }
        }
        if ri == 0 {
            out.sample = format!("base={} gen={} pubs={} stops={} reader0={:?}", base, gen, pubs, stops, seq);
        }
    }
    unsafe { drop(Box::from_raw(seg.0 as *mut [u64; 9])) };
    out
}

fn main() {
    let args: Vec<String> = std::env::args().collect();
    let seed: u64 = args.get(1).map(|s| s.parse().unwrap()).unwrap_or(1);
    let batch: u64 = args.get(2).map(|s| s.parse().unwrap()).unwrap_or(4);
    let mode = args.get(3).cloned().unwrap_or_else(|| "c02".to_string());
    // Quiet injected stops.
    let default = std::panic::take_hook();
    std::panic::set_hook(Box::new(move |info| {
        if info.payload().is::<StopToken>() {
            return;
        }
        default(info);
    }));
    let mut violations: Vec<(u64, String)> = Vec::new();
    let (mut calls, mut nondefault, mut changes, mut idle, mut stops) = (0u64, 0u64, 0u64, 0u64, 0u64);
    let mut samples = Vec::new();
    for b in 0..batch {
        let sc_seed = Rng::new(seed.wrapping_mul(1_000_003).wrapping_add(b)).next();
        let r = run_scenario(sc_seed, &mode);
        calls += r.calls;
        nondefault += r.nondefault;
        changes += r.changes;
        idle += r.idle_calls;
        stops += r.stops;
        if samples.len() < 2 {
            samples.push(r.sample.clone());
        }
        for v in r.violations {
            if violations.len() < 5 {
                violations.push((b, format!("{} [{}]", v, r.sample)));
            }
        }
    }
    let v = json!({
        "seed": seed, "batch": batch, "mode": mode, "scenarios": batch, "calls": calls, "nondefault_snapshots": nondefault,
        "publication_changes_seen": changes, "idle_calls": idle, "stops": stops,
        "violations": violations.iter().map(|(b, t)| json!({"scenario": b, "text": t})).collect::<Vec<_>>(),
        "samples": samples,
    });
    println!("RESULT {}", vworld::serde_json::to_string(&v).unwrap());
}

//! Native engines over the hooked clock-bound-shm: `sched` (random scenarios), `stopenum`
//! (enumerated writer stop points), and the sequential sweeps `c11sweep`, `c03long`, `c18cap`.

use std::collections::{BTreeMap, HashSet};
use std::ffi::CString;
use std::io::Write;
use std::path::{Path, PathBuf};

use clock_bound_shm::verif::{set_handler, Point};
use clock_bound_shm::{ShmReader, ShmWrite, ShmWriter};
use shmsim::history::{Counters, Violation, ACCESS_BOUND};
use shmsim::metered::Metered;
use shmsim::record::{decode, encode, segment_bytes, Decoded};
use shmsim::sched::{install_quiet_panic_hook, run_scenario, Env, Outcome, ReaderProg, Scenario, Start, WOp};
use vworld::serde_json::Value;
use vworld::{arg_str, arg_u64, json, parse_args, Rng};

/// ShmWriter::new + closing the descriptor it leaks (see vworld::close_fds_pointing_to).
fn new_writer(path: &Path) -> ShmWriter {
    let w = ShmWriter::new(path).expect("ShmWriter::new");
    vworld::close_fds_pointing_to(path, &[]);
    w
}

fn workdir() -> PathBuf {
    let d = PathBuf::from(format!("/dev/shm/cbverif.{}", std::process::id()));
    std::fs::create_dir_all(&d).unwrap();
    d
}

fn even_gen(rng: &mut Rng) -> u16 {
    match rng.below(4) {
        0 => 2,
        1 => (65526 + 2 * rng.below(5)) as u16, // 65526..65534: the wrap is a few updates away
        _ => (2 * (1 + rng.below(32766))) as u16,
    }
}

fn gen_start(rng: &mut Rng, focus: &str) -> Start {
    let base = 1 + rng.below(5000);
    let pick = rng.below(100);
    match focus {
        "C02" | "C03" | "C18" => {
            if pick < 70 {
                Start::Valid { gen: even_gen(rng), base }
            } else if pick < 80 {
                Start::ValidOdd { gen: even_gen(rng).wrapping_add(1), base, words: rng.below(8) as usize }
            } else if pick < 90 {
                Start::NoFile
            } else {
                Start::Wiped { version: rng.below(2) as u16 }
            }
        }
        _ => {
            if pick < 5 {
                Start::ValidBig { gen: even_gen(rng), base, size: *rng.pick(&[73u32, 80, 400, 4096, 65536]) }
            } else if pick < 35 {
                Start::Valid { gen: even_gen(rng), base }
            } else if pick < 60 {
                Start::ValidOdd { gen: even_gen(rng).wrapping_add(1), base, words: rng.below(8) as usize }
            } else if pick < 70 {
                Start::NoFile
            } else if pick < 75 {
                Start::NoDir
            } else if pick < 88 {
                let n = rng.below(100) as usize;
                let mut bytes: Vec<u8> = (0..n).map(|_| rng.next() as u8).collect();
                if rng.chance(1, 2) && n >= 16 {
                    // Keep the magic so that validation goes further than its first test, but make
                    // sure the header is one that clients reject (this engine models files no
                    // client can have attached to; header-valid files are C16's subject).
                    let (version, gen, size) = match rng.below(3) {
                        0 => (0u16, rng.below(3) as u16, 72u32),
                        1 => (1, 0, 72),
                        _ => (1, 2, rng.below(72) as u32),
                    };
                    bytes[..16].copy_from_slice(&segment_bytes(version, gen, 0)[..16]);
                    bytes[8..12].copy_from_slice(&size.to_ne_bytes());
                }
                Start::Garbage(bytes)
            } else if pick < 94 {
                Start::Wiped { version: rng.below(2) as u16 }
            } else {
                Start::Foreign { gen: even_gen(rng), base: 1_000_000 + rng.below(1000) }
            }
        }
    }
}

fn pick_den(rng: &mut Rng) -> u64 {
    *rng.pick(&[1u64, 2, 2, 3, 4, 8, 16, 64, 1024])
}

/// Random scenario for a given focus. `points_hint`: rough number of writer points per op, used to
/// place stops inside ops.
fn gen_scenario(seed: u64, focus: &str) -> Scenario {
    let mut rng = Rng::new(seed);
    let start = gen_start(&mut rng, focus);
    let mut writer = vec![WOp::New];
    let mut stops = Vec::new();
    let rounds = match focus {
        "C04" | "C11" => 1 + rng.below(3),
        _ => 1,
    };
    let with_stops = matches!(focus, "C04" | "C11" | "C18");
    for round in 0..rounds {
        if round > 0 {
            writer.push(WOp::New);
        }
        let pubs = 1 + rng.below(if focus == "C03" { 8 } else { 5 });
        let first = writer.len();
        for _ in 0..pubs {
            writer.push(WOp::Publish);
        }
        if with_stops && (round + 1 < rounds || rng.chance(1, if focus == "C18" { 2 } else { 8 })) {
            // Stop somewhere in this round: inside start-up (rarely) or inside one publication.
            if rng.chance(1, 6) {
                stops.push((first - 1, 1 + rng.below(24)));
            } else {
                let op = first + rng.below(pubs) as usize;
                stops.push((op, 1 + rng.below(11)));
            }
        }
    }
    if focus == "C18" && rng.chance(1, 2) {
        // The writer dies for ever: no restart after the stop.
        writer.truncate(1 + 1 + rng.below(4) as usize);
        stops.retain(|(op, _)| *op < writer.len());
        if stops.is_empty() {
            stops.push((writer.len() - 1, 1 + rng.below(11)));
        }
    }
    let nreaders = 1 + rng.below(3) as usize;
    let (_, p0, _) = start.progress();
    let total_pubs = writer.iter().filter(|o| **o == WOp::Publish).count() as u64;
    let readers = (0..nreaders)
        .map(|_| ReaderProg { start_after_p: if rng.chance(1, 2) { 0 } else { p0 + rng.below(total_pubs + 1) }, calls: 1 + rng.below(if focus == "C03" { 14 } else { 8 }) as u32 })
        .collect();
    // A writer that stalls in the middle of an update for a long time (and then carries on).
    let mut pauses = Vec::new();
    if matches!(focus, "C02" | "C03") && rng.chance(1, 40) {
        let pubs: Vec<usize> = writer.iter().enumerate().filter(|(_, o)| **o == WOp::Publish).map(|(i, _)| i).collect();
        if !pubs.is_empty() {
            pauses.push((*rng.pick(&pubs), 2 + rng.below(10), 2 + rng.below(3)));
        }
    }
    Scenario { seed, start, writer, stops, pauses, readers, writer_den: pick_den(&mut rng), reader_den: pick_den(&mut rng), env: Env::random(&mut rng) }
}

#[derive(Default)]
struct Agg {
    scenarios: u64,
    inconclusive: u64,
    nontrivial_hashes: HashSet<u64>,
    counters: Counters,
    steps: u64,
    switches: u64,
    takeovers: u64,
    wipes: u64,
    fresh_reader_checks: u64,
    c11_observations: u64,
    stops_by_site: BTreeMap<String, u64>,
    starts: BTreeMap<String, u64>,
    envs: BTreeMap<String, u64>,
    violations: Vec<Value>,
    other_property_violations: u64,
    samples: Vec<Value>,
}

impl Agg {
    fn add(&mut self, sc: &Scenario, out: &Outcome, property: &str, replay_dir: &str, tag: &str) {
        self.scenarios += 1;
        *self.starts.entry(sc.start.name().to_string()).or_insert(0) += 1;
        *self.envs.entry(sc.env.name()).or_insert(0) += 1;
        if out.inconclusive.is_some() {
            self.inconclusive += 1;
        }
        let c = &out.counters;
        let nontrivial = c.overlapped_calls > 0 || c.stops > 0 || c.publication_changes_seen > 0;
        if nontrivial {
            self.nontrivial_hashes.insert(out.trace_hash);
        }
        let a = &mut self.counters;
        a.calls += c.calls;
        a.overlapped_calls += c.overlapped_calls;
        a.idle_calls += c.idle_calls;
        a.nondefault_snapshots += c.nondefault_snapshots;
        a.publication_changes_seen += c.publication_changes_seen;
        a.exception_cases += c.exception_cases;
        a.err_returns += c.err_returns;
        a.odd_entry_calls += c.odd_entry_calls;
        a.max_accesses = a.max_accesses.max(c.max_accesses);
        a.stops += c.stops;
        a.restarts += c.restarts;
        a.after_crash_calls += c.after_crash_calls;
        self.steps += out.steps;
        self.switches += out.switches;
        self.takeovers += out.takeovers;
        self.wipes += out.wipes;
        self.fresh_reader_checks += out.fresh_reader_checks;
        self.c11_observations += out.c11_observations;
        for (_, site, op) in out.stopped_sites.iter() {
            *self.stops_by_site.entry(format!("{}:{}", op, site)).or_insert(0) += 1;
        }
        let mine: Vec<&Violation> = out.violations.iter().filter(|v| v.property == property).collect();
        self.other_property_violations += (out.violations.len() - mine.len()) as u64;
        if !mine.is_empty() && self.violations.len() < 20 {
            let path = format!("{}/{}-{}-{}.json", replay_dir, property, tag, self.violations.len());
            let replay = json!({
                "property": property,
                "engine": "sched",
                "scenario": sc.to_json(),
                "violations": mine.iter().map(|v| json!({"sig": v.sig, "detail": v.detail})).collect::<Vec<_>>(),
                "witness": out.witness,
            });
            vworld::write_json(&path, &replay);
            self.violations.push(json!({"sig": mine[0].sig, "detail": mine[0].detail, "replay": path}));
        }
        if self.samples.len() < 3 && nontrivial {
            self.samples.push(json!({"scenario": sc.to_json(), "steps": out.steps, "switches": out.switches, "calls": c.calls, "overlapped_calls": c.overlapped_calls}));
        }
    }

    fn to_json(&self, hashes_path: &str) -> Value {
        let mut hashes: Vec<u64> = self.nontrivial_hashes.iter().cloned().collect();
        hashes.sort_unstable();
        let mut f = std::fs::File::create(hashes_path).unwrap();
        for h in hashes.iter() {
            f.write_all(&h.to_le_bytes()).unwrap();
        }
        let c = &self.counters;
        json!({
            "scenarios": self.scenarios,
            "inconclusive": self.inconclusive,
            "distinct_nontrivial_here": hashes.len(),
            "hashes_file": hashes_path,
            "calls": c.calls,
            "overlapped_calls": c.overlapped_calls,
            "idle_calls": c.idle_calls,
            "nondefault_snapshots": c.nondefault_snapshots,
            "publication_changes_seen": c.publication_changes_seen,
            "exception_cases": c.exception_cases,
            "err_returns": c.err_returns,
            "odd_entry_calls": c.odd_entry_calls,
            "max_accesses_per_call": c.max_accesses,
            "stops": c.stops,
            "restarts": c.restarts,
            "after_crash_calls": c.after_crash_calls,
            "steps": self.steps,
            "switches": self.switches,
            "takeovers": self.takeovers,
            "wipes": self.wipes,
            "fresh_reader_checks": self.fresh_reader_checks,
            "c11_observations": self.c11_observations,
            "stops_by_site": self.stops_by_site,
            "starts": self.starts,
            "environments": self.envs,
            "violations": self.violations,
            "other_property_violations": self.other_property_violations,
            "samples": self.samples,
        })
    }
}

fn shard_of(args: &std::collections::HashMap<String, String>) -> (u64, u64) {
    let s = arg_str(args, "shard", "0/1");
    let mut it = s.split('/');
    (it.next().unwrap().parse().unwrap(), it.next().unwrap().parse().unwrap())
}

fn mode_sched(args: &std::collections::HashMap<String, String>) -> Value {
    let focus = arg_str(args, "focus", "C02");
    let seed = arg_u64(args, "seed", 1);
    let count = arg_u64(args, "count", 1000);
    let (shard, nshards) = shard_of(args);
    let replay_dir = arg_str(args, "replays", "/verif/replays");
    let dir = workdir();
    let mut agg = Agg::default();
    let mut k = shard;
    while k < count {
        let sc_seed = Rng::new(seed.wrapping_mul(0x1F3D_5B79).wrapping_add(k)).next();
        let sc = gen_scenario(sc_seed, &focus);
        let out = run_scenario(&sc, &dir, false, true);
        agg.add(&sc, &out, &focus, &replay_dir, &format!("sched-{}-{}", seed, k));
        k += nshards;
    }
    let _ = std::fs::remove_dir_all(&dir);
    agg.to_json(&arg_str(args, "hashes", "/dev/null"))
}

/// Writer programs used by the stop enumeration.
fn enum_program() -> Vec<WOp> {
    vec![WOp::New, WOp::Publish, WOp::Publish, WOp::New, WOp::Publish, WOp::Publish]
}

fn enum_starts() -> Vec<Start> {
    vec![
        Start::NoFile,
        Start::NoDir,
        Start::Garbage(b"foobarbaz".to_vec()),
        Start::Garbage(segment_bytes(1, 0, 0)[..16].to_vec()),
        Start::Wiped { version: 0 },
        Start::Wiped { version: 1 },
        Start::Foreign { gen: 8, base: 7000 },
        Start::Valid { gen: 2, base: 1 },
        Start::Valid { gen: 40000, base: 777 },
        Start::Valid { gen: 65534, base: 32767 },
        Start::Valid { gen: 65532, base: 9 },
        Start::ValidBig { gen: 8, base: 40, size: 80 },
        Start::ValidBig { gen: 65534, base: 41, size: 4096 },
        Start::ValidOdd { gen: 1, base: 0, words: 3 },
        Start::ValidOdd { gen: 65535, base: 500, words: 7 },
        Start::ValidOdd { gen: 12345, base: 500, words: 0 },
    ]
}

fn mode_stopenum(args: &std::collections::HashMap<String, String>) -> Value {
    let property = arg_str(args, "focus", "C04");
    let seed = arg_u64(args, "seed", 1);
    let schedules = arg_u64(args, "schedules", 64);
    let (shard, nshards) = shard_of(args);
    let replay_dir = arg_str(args, "replays", "/verif/replays");
    let dir = workdir();
    let mut agg = Agg::default();
    let mut plans = 0u64;
    let mut plans_reached = 0u64;
    let mut table: BTreeMap<String, u64> = BTreeMap::new();
    let mut job = 0u64;
    for (si, start) in enum_starts().iter().enumerate() {
        // Discover the writer's points for this start state: a dry run, no readers, no stops.
        let probe = Scenario { seed: 0, start: start.clone(), writer: enum_program(), stops: vec![], pauses: vec![], readers: vec![], writer_den: 0, reader_den: 0, env: Env::default() };
        let dry = run_scenario(&probe, &dir, true, false);
        let mut per_op: BTreeMap<usize, u64> = BTreeMap::new();
        for (op, k, _site) in dry.writer_sites.iter() {
            let e = per_op.entry(*op).or_insert(0);
            *e = (*e).max(*k);
        }
        // Stops in the first incarnation only (ops 0..=2); the second incarnation is the restart.
        for op in 0..3usize {
            let n = *per_op.get(&op).unwrap_or(&0);
            for k in 1..=n {
                plans += 1;
                let mut reached = false;
                for sch in 0..schedules {
                    job += 1;
                    if job % nshards != shard {
                        continue;
                    }
                    let mut rng = Rng::new(seed ^ (si as u64) << 48 ^ (op as u64) << 40 ^ k << 20 ^ sch);
                    let (_, p0, _) = start.progress();
                    let nreaders = 1 + rng.below(3) as usize;
                    let mut stops = vec![(op, k)];
                    // Sometimes a second stop, in the restarted incarnation.
                    if rng.chance(1, 4) {
                        stops.push((3 + rng.below(3) as usize, 1 + rng.below(12)));
                    }
                    let sc = Scenario {
                        seed: rng.next(),
                        start: start.clone(),
                        writer: if stops.len() == 2 { let mut w = enum_program(); w.extend([WOp::New, WOp::Publish]); w } else { enum_program() },
                        stops,
                        pauses: vec![],
                        readers: (0..nreaders).map(|_| ReaderProg { start_after_p: if rng.chance(2, 3) { 0 } else { p0 + rng.below(3) }, calls: 2 + rng.below(8) as u32 }).collect(),
                        writer_den: pick_den(&mut rng),
                        reader_den: pick_den(&mut rng),
                        env: Env::random(&mut rng),
                    };
                    let out = run_scenario(&sc, &dir, false, true);
                    if let Some((_, site, opname)) = out.stopped_sites.first() {
                        reached = true;
                        *table.entry(format!("{:02}:{}|op{}:{}|k{:02}:{}", si, start.name(), op, opname, k, site)).or_insert(0) += 1;
                    }
                    agg.add(&sc, &out, &property, &replay_dir, &format!("stopenum-{}-{}", seed, job));
                }
                if reached {
                    plans_reached += 1;
                }
            }
        }
    }
    let _ = std::fs::remove_dir_all(&dir);
    let mut v = agg.to_json(&arg_str(args, "hashes", "/dev/null"));
    v["stop_plans"] = json!(plans);
    v["stop_plans_reached_in_this_shard"] = json!(plans_reached);
    v["stop_table"] = json!(table);
    v["start_states"] = json!(enum_starts().iter().map(|s| s.to_json()).collect::<Vec<_>>());
    v
}

/// C11: for every start value of the generation, one real write() observed at each of its points.
fn mode_c11sweep(args: &std::collections::HashMap<String, String>) -> Value {
    let (shard, nshards) = shard_of(args);
    let replay_dir = arg_str(args, "replays", "/verif/replays");
    let dir = workdir();
    let path = dir.join("sweep");
    let mut violations: Vec<Value> = Vec::new();
    let mut evaluations = 0u64;
    let mut republished = 0u64;
    let mut observations = 0u64;
    let mut parities: BTreeMap<String, u64> = BTreeMap::new();
    let mut samples = Vec::new();
    // One valid segment, one writer, generation poked through the file (MAP_SHARED coherent).
    std::fs::write(&path, segment_bytes(1, 2, 1)).unwrap();
    let mut writer = new_writer(&path);
    let file = std::fs::OpenOptions::new().read(true).write(true).open(&path).unwrap();
    use std::os::unix::fs::FileExt;
    let read_gen = |f: &std::fs::File| -> u16 {
        let mut b = [0u8; 2];
        f.read_at(&mut b, 14).unwrap();
        u16::from_ne_bytes(b)
    };
    let chain = arg_u64(args, "chain", 0);
    let only_watched = arg_u64(args, "only-watched", 0) == 1;
    let mut opens_during_updates = 0u64;
    let mut open_violations = 0u64;
    let mut g0 = shard;
    while g0 < 65536 {
        let g0v = g0 as u16;
        file.write_at(&g0v.to_ne_bytes(), 14).unwrap();
        let seen: std::rc::Rc<std::cell::RefCell<Vec<(String, usize, u16)>>> = Default::default();
        // A client that attaches while this update runs (C16: once the daemon has published, clients
        // can open the segment): a fresh open at every point of the update, for start values around
        // the wrap, the smallest ones and a sample of the others.
        let watch_opens = g0v != 0 && (g0v >= 65500 || g0v <= 8 || g0 % 509 == 3);
        if only_watched && !watch_opens {
            g0 += nshards;
            continue;
        }
        let open_failures: std::rc::Rc<std::cell::RefCell<Vec<String>>> = Default::default();
        {
            let seen = seen.clone();
            let f = file.try_clone().unwrap();
            let of = open_failures.clone();
            let opath = CString::new(path.to_str().unwrap()).unwrap();
            set_handler(Some(Box::new(move |p: &Point| {
                let mut b = [0u8; 2];
                f.read_at(&mut b, 14).unwrap();
                seen.borrow_mut().push((p.site.to_string(), p.word, u16::from_ne_bytes(b)));
                if watch_opens {
                    if let Err(e) = ShmReader::new(&opath) {
                        of.borrow_mut().push(format!("{}[{}] (generation field reads {}): {:?}", p.site, p.word, u16::from_ne_bytes(b), e));
                    }
                }
            })));
        }
        let rec = encode(g0 + 10);
        writer.write(&rec);
        set_handler(None);
        let after = read_gen(&file);
        evaluations += 1;
        if watch_opens {
            opens_during_updates += seen.borrow().len() as u64;
            if let Some(first) = open_failures.borrow().first() {
                if open_violations < 5 {
                    open_violations += 1;
                    violations.push(json!({"sig": "open-fails-while-the-daemon-updates", "detail": format!("a published segment at generation {}: a client opening it during the next update was refused at {} of {} points, first at {}", g0v, open_failures.borrow().len(), seen.borrow().len(), first), "replay": ""}));
                }
            }
        }
        let seen = seen.borrow().clone();
        observations += seen.len() as u64;
        let mut bad: Vec<String> = Vec::new();
        let mut word_points = 0;
        for (site, word, g) in seen.iter() {
            if *g == 0 && g0v != 0 {
                bad.push(format!("generation reads 0 at point {} of the update", site));
            }
            if site.starts_with("wword") {
                word_points += 1;
                if g & 1 == 0 {
                    bad.push(format!("generation {} even while word {} is written ({})", g, word, site));
                }
            }
        }
        if word_points < 14 {
            bad.push(format!("only {} word points observed", word_points));
        }
        if after & 1 == 1 || after == 0 {
            bad.push(format!("generation {} after the update (must be even and non-zero)", after));
        }
        if after == g0v {
            bad.push(format!("generation {} unchanged by a completed update", after));
        }
        let expected = if g0v & 1 == 0 { g0v.wrapping_add(2) } else { g0v.wrapping_add(1) };
        let expected = if expected == 0 { 2 } else { expected };
        *parities.entry(format!("start-{}{}", if g0v & 1 == 0 { "even" } else { "odd" }, if after != expected { "-other-successor" } else { "" })).or_insert(0) += 1;
        if samples.len() < 4 && (g0 == shard || g0v >= 65534 || g0v == 65533) {
            samples.push(json!({"g0": g0v, "during": seen.iter().filter(|s| s.0.starts_with("wword.pre")).map(|s| s.2).collect::<Vec<_>>(), "after": after}));
        }
        // The stored record must also be intact.
        let cpath = CString::new(path.to_str().unwrap()).unwrap();
        if after != 0 {
            if let Ok(mut r) = ShmReader::new(&cpath) {
                if let Ok(c) = r.msnapshot() {
                    if decode(c) != Decoded::Publication(g0 + 10) {
                        bad.push(format!("record read back after the update is {:?}", decode(c)));
                    }
                }
            }
        }
        // The same record published again from the same start value (the daemon republishes an
        // unchanged record every second while chronyd is unsynchronised).
        {
            file.write_at(&g0v.to_ne_bytes(), 14).unwrap();
            let zero_seen = std::rc::Rc::new(std::cell::Cell::new(false));
            {
                let z = zero_seen.clone();
                let f = file.try_clone().unwrap();
                set_handler(Some(Box::new(move |_p: &Point| {
                    let mut b = [0u8; 2];
                    f.read_at(&mut b, 14).unwrap();
                    if u16::from_ne_bytes(b) == 0 {
                        z.set(true);
                    }
                })));
            }
            writer.write(&rec);
            set_handler(None);
            let after2 = read_gen(&file);
            republished += 1;
            if after2 & 1 == 1 || after2 == 0 || after2 == g0v || (zero_seen.get() && g0v != 0) {
                bad.push(format!("republishing the same record from generation {}: generation {} afterwards{}", g0v, after2, if zero_seen.get() { ", 0 seen on the way" } else { "" }));
            }
        }
        if !bad.is_empty() && violations.len() < 20 {
            let rp = format!("{}/C11-sweep-{}.json", replay_dir, g0v);
            vworld::write_json(&rp, &json!({"property":"C11","engine":"c11sweep","g0":g0v,"violations":bad,"observed":seen.iter().map(|s| json!([s.0, s.1, s.2])).collect::<Vec<_>>(),"after":after}));
            violations.push(json!({"sig":"c11-sweep","detail":format!("start generation {}: {}", g0v, bad.join("; ")),"replay":rp}));
        }
        g0 += nshards;
    }
    // Chains: consecutive updates across the wrap, checking the per-step invariant along the way.
    let mut chain_steps = 0u64;
    let mut wraps = 0u64;
    if chain > 0 && shard == 0 {
        file.write_at(&65000u16.to_ne_bytes(), 14).unwrap();
        let mut prev = 65000u16;
        for i in 0..chain {
            // every record is published twice in a row
            writer.write(&encode(100 + i / 2));
            let g = read_gen(&file);
            chain_steps += 1;
            if g < prev {
                wraps += 1;
            }
            if (g & 1 == 1 || g == 0 || g == prev) && violations.len() < 20 {
                let rp = format!("{}/C11-chain-{}.json", replay_dir, i);
                vworld::write_json(&rp, &json!({"property":"C11","engine":"c11chain","step":i,"prev":prev,"gen":g}));
                violations.push(json!({"sig":"c11-chain","detail":format!("chain step {}: generation {} after {}", i, g, prev),"replay":rp}));
            }
            prev = g;
        }
    }
    drop(writer);
    let _ = std::fs::remove_dir_all(&dir);
    json!({"evaluations": evaluations, "republished": republished, "observations": observations, "classes": parities, "chain_steps": chain_steps, "wrap_crossings": wraps, "opens_during_updates": opens_during_updates, "violations": violations, "samples": samples})
}

/// C03: long sequential histories — readers that sleep through many publications, the wrap.
fn mode_c03long(args: &std::collections::HashMap<String, String>) -> Value {
    let seed = arg_u64(args, "seed", 1);
    let (shard, nshards) = shard_of(args);
    let rounds = arg_u64(args, "rounds", 40);
    let replay_dir = arg_str(args, "replays", "/verif/replays");
    let dir = workdir();
    let mut violations: Vec<Value> = Vec::new();
    let mut evaluations = 0u64;
    let mut wrap_crossings = 0u64;
    let mut exception_cases = 0u64;
    let mut idle_calls = 0u64;
    let mut distinct: HashSet<(u16, u64)> = HashSet::new();
    let mut samples = Vec::new();
    let fixed: Vec<u64> = vec![1, 2, 3, 100, 8191, 16383, 16384, 16385, 32765, 32766, 32767, 32768, 32769, 49151, 65533, 65534, 65535, 98301];
    let mut job = 0u64;
    for round in 0..rounds {
        // The fixed list plus a few random skip sizes per round.
        let mut sleeps = fixed.clone();
        let mut rr = Rng::new(seed ^ 0x51EE9 ^ round);
        for _ in 0..6 {
            sleeps.push(1 + rr.below(70_000));
        }
        for (k, sleep) in sleeps.iter().enumerate() {
            job += 1;
            if job % nshards != shard {
                continue;
            }
            let mut rng = Rng::new(seed ^ round << 32 ^ k as u64);
            let path = dir.join(format!("long{}", job));
            let g0: u16 = if round == 0 { 2 } else { (2 * (1 + rng.below(32767))) as u16 };
            let base = 1 + rng.below(1000);
            std::fs::write(&path, segment_bytes(1, g0, base)).unwrap();
            let mut writer = new_writer(&path);
            let cpath = CString::new(path.to_str().unwrap()).unwrap();
            let mut reader = ShmReader::new(&cpath).unwrap();
            let mut p = base;
            let mut last = 0u64;
            let mut check = |reader: &mut ShmReader, p: u64, last: &mut u64, what: &str, violations: &mut Vec<Value>, exception_cases: &mut u64| {
                let d = match reader.msnapshot() {
                    Ok(c) => decode(c),
                    Err(e) => {
                        violations.push(json!({"sig":"c03long-error","detail":format!("{}: snapshot error {:?}", what, e),"replay":""}));
                        return;
                    }
                };
                let idx = match d {
                    Decoded::Initial => 0,
                    Decoded::Publication(i) => i,
                    Decoded::Blend(_) => u64::MAX,
                };
                let exempt = *last > 0 && p > *last && (p - *last) % 32767 == 0 && idx == *last;
                if exempt {
                    *exception_cases += 1;
                } else if idx != p || idx < *last {
                    violations.push(json!({"sig":"stale-in-idle-window","detail":format!("{}: returned {:?} with latest publication {} (previous return {})", what, d, p, last),"replay":""}));
                }
                if idx != u64::MAX {
                    *last = idx;
                }
            };
            // First call, then sleep through `sleep` publications, call, then a few more steps.
            check(&mut reader, p, &mut last, "first call", &mut violations, &mut exception_cases);
            idle_calls += 1;
            let mut prev_gen = g0;
            for _ in 0..*sleep {
                p += 1;
                writer.write(&encode(p));
            }
            let _ = prev_gen;
            prev_gen = g0;
            let crossed = (*sleep as u128 * 2 + g0 as u128) / 65536;
            wrap_crossings += crossed as u64;
            check(&mut reader, p, &mut last, &format!("after sleeping through {} publications from generation {}", sleep, g0), &mut violations, &mut exception_cases);
            idle_calls += 1;
            for step in 0..3 {
                p += 1;
                writer.write(&encode(p));
                check(&mut reader, p, &mut last, &format!("step {} after the sleep of {}", step, sleep), &mut violations, &mut exception_cases);
                idle_calls += 1;
            }
            // A reader created only now must see the latest as well.
            let mut fresh = ShmReader::new(&cpath).unwrap();
            let mut fl = 0;
            check(&mut fresh, p, &mut fl, "fresh reader at the end", &mut violations, &mut exception_cases);
            idle_calls += 1;
            let _ = prev_gen;
            evaluations += 1;
            distinct.insert((g0, *sleep));
            if samples.len() < 3 {
                samples.push(json!({"start_generation": g0, "base": base, "sleep": sleep, "final_publication": p}));
            }
            drop(writer);
            let _ = std::fs::remove_file(&path);
        }
    }
    // Sparse changes: consecutive publications that differ in a single field only (the daemon does
    // exactly that when only the status changes). Compared by full equality, not by keyed decoding.
    let mut sparse_checks = 0u64;
    if shard == 0 {
        use clock_bound_shm::{ClockErrorBound, ClockStatus};
        let path = dir.join("sparse");
        let mut writer = new_writer(&path);
        let cpath = CString::new(path.to_str().unwrap()).unwrap();
        let mut rng = Rng::new(seed ^ 0x5BA25E);
        let mut f: [i64; 8] = [100, 5, 1100, 0, 777, 1000, 0, 1];
        let mk = |f: &[i64; 8]| ClockErrorBound::new(libc::timespec { tv_sec: f[0], tv_nsec: f[1] }, libc::timespec { tv_sec: f[2], tv_nsec: f[3] }, f[4], f[5] as u32, f[6] as u32,
                                                     match f[7] { 1 => ClockStatus::Synchronized, 2 => ClockStatus::FreeRunning, _ => ClockStatus::Unknown });
        writer.write(&mk(&f));
        let mut attached = ShmReader::new(&cpath).unwrap();
        let _ = attached.msnapshot();
        for step in 0..(400 * rounds.max(1)) {
            let k = if step % 3 == 0 { 7 } else { rng.below(8) as usize };
            f[k] = match k { 7 => (f[7] + 1 + rng.below(2) as i64) % 3, 1 | 3 => (f[k] + 1) % 1_000_000_000, _ => f[k] + 1 };
            let rec = mk(&f);
            writer.write(&rec);
            sparse_checks += 1;
            let got_attached = attached.msnapshot().map(|c| *c);
            let got_fresh = ShmReader::new(&cpath).and_then(|mut r| r.msnapshot().map(|c| *c));
            for (who, got) in [("attached", got_attached), ("fresh", got_fresh)] {
                if got != Ok(rec) && violations.len() < 20 {
                    violations.push(json!({"sig":"stale-after-single-field-change","detail":format!("publication #{} changed only field {} of the record; with the writer idle the {} reader returned {:?}, published {:?}", step, ["as_of.sec","as_of.nsec","void_after.sec","void_after.nsec","bound","max_drift","reserved","status"][k], who, got, rec),"replay":""}));
                }
            }
        }
        drop(writer);
        let _ = std::fs::remove_file(&path);
    }
    for (n, v) in violations.iter_mut().enumerate() {
        let rp = format!("{}/C03-long-{}-{}.json", replay_dir, seed, n);
        vworld::write_json(&rp, &json!({"property":"C03","engine":"c03long","seed":seed,"violation":v.clone()}));
        v["replay"] = json!(rp);
    }
    violations.truncate(20);
    // A client that polls in a tight loop for a long time between two publications (state that
    // accumulates in one reader over millions of calls): the publication that ends the idle
    // stretch must be returned by the very next call.
    let mut idle_streaks = 0u64;
    for (si, streak) in [100_003u64, 1_100_017, 5_000_011, 20_000_033, 4_194_305, 8_388_611].iter().enumerate() {
        if (si as u64) % nshards != shard {
            continue;
        }
        let path = dir.join(format!("streak{}", si));
        std::fs::write(&path, segment_bytes(1, 2, 1)).unwrap();
        let mut w = new_writer(&path);
        let cpath = CString::new(path.to_str().unwrap()).unwrap();
        let mut r = ShmReader::new(&cpath).unwrap();
        let mut bad = 0u64;
        for _ in 0..*streak {
            if let Ok(c) = r.msnapshot() {
                if decode(c) != Decoded::Publication(1) {
                    bad += 1;
                }
            }
        }
        idle_calls += *streak;
        w.write(&encode(2));
        let mut stale = 0u64;
        for _ in 0..300 {
            match r.msnapshot().map(decode) {
                Ok(Decoded::Publication(2)) => {}
                _ => stale += 1,
            }
        }
        evaluations += 1;
        idle_streaks += 1;
        if bad > 0 || stale > 0 {
            violations.push(json!({"sig": "stale-after-a-long-idle-stretch", "detail": format!("one reader called snapshot() {} times while nothing was published ({} of those answers were not the current record), then publication 2 completed and the writer went idle: {} of the next 300 calls did not return it", streak, bad, stale), "replay": ""}));
        }
    }
    // A reader attached before the segment is re-initialised: the header of a published segment
    // becomes unusable in place (another build of the daemon wiped it, an operator's tool zeroed
    // it), the next daemon start takes the cold path (`wipe`) on the file the reader has mapped,
    // and publishes. Serving the cache is allowed until the first new publication completes; from
    // then on the attached reader must return what a fresh reader returns. Sequential: reader
    // calls happen at quiescent points only.
    let mut cold_restarts = 0u64;
    {
        use std::os::unix::fs::FileExt;
        let damages: [(&str, u64, Vec<u8>); 6] = [
            ("version and generation zeroed", 12, vec![0, 0, 0, 0]),
            ("generation zeroed", 14, vec![0, 0]),
            ("version zeroed", 12, vec![0, 0]),
            ("first magic word overwritten", 0, vec![0x55, 0xAA, 0x55, 0xAA]),
            ("declared size 71", 8, 71u32.to_ne_bytes().to_vec()),
            ("whole header zeroed", 0, vec![0u8; 16]),
        ];
        for (di, (what, off, bytes)) in damages.iter().enumerate() {
            for (gi, g0) in [2u16, 40000, 65532].iter().enumerate() {
                if ((di * 3 + gi) as u64) % nshards != shard {
                    continue;
                }
                let path = dir.join(format!("cold{}-{}", di, gi));
                std::fs::write(&path, segment_bytes(1, *g0, 1)).unwrap();
                let mut w1 = new_writer(&path);
                w1.write(&encode(2));
                let cpath = CString::new(path.to_str().unwrap()).unwrap();
                let mut r = ShmReader::new(&cpath).unwrap();
                let before = r.msnapshot().map(decode);
                drop(w1);
                {
                    let f = std::fs::OpenOptions::new().write(true).open(&path).unwrap();
                    f.write_at(bytes, *off).unwrap();
                }
                let during = r.msnapshot().map(decode);
                let mut w2 = new_writer(&path);
                let after_start = r.msnapshot().map(decode);
                let mut bad = Vec::new();
                for (stage, got) in [("before the damage", &before), ("with the damaged header", &during), ("after the daemon's restart, before its first publication", &after_start)] {
                    if *got != Ok(Decoded::Publication(2)) {
                        // nothing newer exists: the only complete record is publication 2 (errors are C14/C16's subject, an older or foreign record is not acceptable)
                        if let Ok(Decoded::Publication(n)) = got {
                            if *n != 2 {
                                bad.push(format!("{}: returned publication {}", stage, n));
                            }
                        }
                    }
                }
                for n in 3..=6u64 {
                    w2.write(&encode(n));
                    let got = r.msnapshot().map(decode);
                    let fresh = ShmReader::new(&cpath).and_then(|mut fr| fr.msnapshot().map(decode));
                    idle_calls += 1;
                    if fresh != Ok(Decoded::Publication(n)) {
                        bad.push(format!("a fresh reader returned {:?} after publication {}", fresh, n));
                    }
                    if got != Ok(Decoded::Publication(n)) {
                        bad.push(format!("the attached reader returned {:?} after publication {} completed (writer idle, a fresh reader returned {:?})", got, n, fresh));
                    }
                }
                evaluations += 1;
                cold_restarts += 1;
                if !bad.is_empty() {
                    violations.push(json!({"sig": "stale-after-cold-restart", "detail": format!("reader attached at generation {}, header then damaged in place ({}), daemon restarted over it and published 3..6: {}", g0, what, bad.join("; ")), "replay": ""}));
                }
                drop(w2);
                let _ = std::fs::remove_file(&path);
            }
        }
    }
    let _ = std::fs::remove_dir_all(&dir);
    json!({"evaluations": evaluations, "distinct": distinct.len(), "idle_calls": idle_calls, "idle_streaks": idle_streaks, "cold_restarts_with_attached_reader": cold_restarts, "wrap_crossings": wrap_crossings, "exception_cases": exception_cases, "sparse_change_checks": sparse_checks, "violations": violations, "samples": samples})
}

/// C18: the lock-step adversary (one complete update between the copy and the re-check of every
/// retry) and writers stopped for ever at each point of an update, natively and single threaded.
fn mode_c18cap(args: &std::collections::HashMap<String, String>) -> Value {
    let replay_dir = arg_str(args, "replays", "/verif/replays");
    let (shard, _nshards) = shard_of(args);
    let dir = workdir();
    let mut violations: Vec<Value> = Vec::new();
    let mut evaluations = 0u64;
    let mut samples = Vec::new();
    let mut max_accesses = 0u64;
    let mut capped_calls = 0u64;
    use std::cell::{Cell, RefCell};
    use std::rc::Rc;

    // (a) Adversary that completes one update each time the reader has copied the last word.
    if shard == 0 {
        for (name, updates_per_retry, limit) in [("one-update-per-retry", 1u64, u64::MAX), ("two-updates-per-retry", 2, u64::MAX), ("adversary-gives-up-after-1000-retries", 1, 1000)] {
            let path = dir.join("cap");
            std::fs::write(&path, segment_bytes(1, 2, 1)).unwrap();
            let writer = Rc::new(RefCell::new(new_writer(&path)));
            let cpath = CString::new(path.to_str().unwrap()).unwrap();
            let mut reader = ShmReader::new(&cpath).unwrap();
            let accesses = Rc::new(Cell::new(0u64));
            let retries = Rc::new(Cell::new(0u64));
            let next = Rc::new(Cell::new(2u64));
            {
                let (w, a, r, n) = (writer.clone(), accesses.clone(), retries.clone(), next.clone());
                set_handler(Some(Box::new(move |p: &Point| {
                    if p.site == "load.pre" || p.site == "rword.pre" {
                        a.set(a.get() + 1);
                        if a.get() > ACCESS_BOUND + 10 {
                            std::panic::panic_any("access bound exceeded");
                        }
                    }
                    if p.site == "rword.post" && p.word == 6 && r.get() < limit {
                        r.set(r.get() + 1);
                        for _ in 0..updates_per_retry {
                            w.borrow_mut().write(&encode(n.get()));
                            n.set(n.get() + 1);
                        }
                    }
                })));
            }
            let res = std::panic::catch_unwind(std::panic::AssertUnwindSafe(|| match reader.msnapshot() {
                Ok(c) => format!("{:?}", decode(c)),
                Err(e) => format!("Err({:?})", e),
            }));
            set_handler(None);
            evaluations += 1;
            max_accesses = max_accesses.max(accesses.get());
            let result = match res {
                Ok(s) => s,
                Err(_) => {
                    let rp = format!("{}/C18-cap-{}.json", replay_dir, name);
                    vworld::write_json(&rp, &json!({"property":"C18","engine":"c18cap","case":name,"accesses":accesses.get()}));
                    violations.push(json!({"sig":"unbounded-accesses","detail":format!("{}: snapshot() exceeded {} shared accesses", name, ACCESS_BOUND),"replay":rp}));
                    "aborted".to_string()
                }
            };
            if result.starts_with("Err") {
                capped_calls += 1;
            }
            if limit != u64::MAX && !result.starts_with("Publication") {
                let rp = format!("{}/C18-cap-{}.json", replay_dir, name);
                vworld::write_json(&rp, &json!({"property":"C18","engine":"c18cap","case":name,"result":result}));
                violations.push(json!({"sig":"no-answer-once-writer-idle","detail":format!("{}: the writer went idle after {} retries but the call returned {}", name, limit, result),"replay":rp}));
            }
            samples.push(json!({"case": name, "retries_forced": retries.get(), "accesses": accesses.get(), "result": result}));
            drop(reader);
            drop(writer);
        }
    }

    // (a3) The segment is re-initialised under a reader that is inside its copy: a restarted daemon
    // found the header unusable and wiped the file in place (generation 0, version 0, zero body),
    // then stalled or died before its first publication. The generation the reader meets at its
    // re-check is 0 for ever; the call must still end (cache or error) after bounded work. Also a
    // generation that is poked to other fixed values at the re-check and never changes again.
    if shard == 0 {
        use std::os::unix::fs::FileExt;
        for after_word in [0usize, 3, 6] {
            for (name, image) in [("wiped-mid-copy", segment_bytes(0, 0, 0)), ("wiped-version-kept", segment_bytes(1, 0, 0)), ("left-odd-mid-copy", segment_bytes(1, 5, 0)), ("other-even-mid-copy", segment_bytes(1, 40000, 0))] {
                let path = dir.join("wipe");
                std::fs::write(&path, segment_bytes(1, 2, 1)).unwrap();
                let mut w = new_writer(&path);
                let cpath = CString::new(path.to_str().unwrap()).unwrap();
                let mut reader = ShmReader::new(&cpath).unwrap();
                let _ = reader.msnapshot();
                w.write(&encode(2));
                drop(w);
                let file = std::fs::OpenOptions::new().write(true).open(&path).unwrap();
                let accesses = Rc::new(Cell::new(0u64));
                let done = Rc::new(Cell::new(false));
                {
                    let (a, d) = (accesses.clone(), done.clone());
                    set_handler(Some(Box::new(move |p: &Point| {
                        if p.site == "load.pre" || p.site == "rword.pre" {
                            a.set(a.get() + 1);
                            if a.get() > ACCESS_BOUND + 10 {
                                std::panic::panic_any("access bound exceeded");
                            }
                        }
                        if p.site == "rword.post" && p.word == after_word && !d.get() {
                            d.set(true);
                            file.write_at(&image, 0).unwrap();
                        }
                    })));
                }
                let res = std::panic::catch_unwind(std::panic::AssertUnwindSafe(|| match reader.msnapshot() {
                    Ok(c) => format!("{:?}", decode(c)),
                    Err(e) => format!("Err({:?})", e),
                }));
                set_handler(None);
                evaluations += 1;
                max_accesses = max_accesses.max(accesses.get());
                let case = format!("{}-after-word-{}", name, after_word);
                match res {
                    Ok(r) => {
                        if r.starts_with("Err") {
                            capped_calls += 1;
                        }
                        if !done.get() {
                            violations.push(json!({"sig":"harness-wipe-point-not-reached","detail":format!("{}: the reader never copied word {}", case, after_word),"replay":""}));
                        }
                        if samples.len() < 12 {
                            samples.push(json!({"case": case, "accesses": accesses.get(), "result": r}));
                        }
                    }
                    Err(_) => {
                        let rp = format!("{}/C18-cap-{}.json", replay_dir, case);
                        vworld::write_json(&rp, &json!({"property":"C18","engine":"c18cap","case":case,"accesses":accesses.get()}));
                        violations.push(json!({"sig":"unbounded-accesses","detail":format!("{}: the segment was re-initialised in place while the reader was copying and nothing was published afterwards; snapshot() exceeded {} shared accesses", case, ACCESS_BOUND),"replay":rp}));
                    }
                }
                drop(reader);
                let _ = std::fs::remove_file(&path);
            }
        }
    }

    // (a2) Adversaries that mix "update in flight" and "update completed" at the reader's re-check:
    // after each copy the writer either completes its pending update, or begins one and stays in
    // it, following a pattern (true = leave the generation odd at the re-check).
    if shard == 0 || _nshards > 1 {
        let patterns: Vec<(&str, Vec<bool>)> = vec![
            ("alternate-odd-even", vec![true, false]),
            ("odd-odd-even", vec![true, true, false]),
            ("even-even-odd", vec![false, false, true]),
            ("odd-x5-even", vec![true, true, true, true, true, false]),
            ("pseudo-random", (0..97).map(|k| (k * k + 3 * k) % 7 < 3).collect()),
        ];
        for (pi, (name, pattern)) in patterns.iter().enumerate() {
            if (pi as u64) % _nshards != shard {
                continue;
            }
            let path = dir.join(format!("mix{}", pi));
            std::fs::write(&path, segment_bytes(1, 2, 1)).unwrap();
            let writer = Rc::new(RefCell::new(Some(new_writer(&path))));
            let cpath = CString::new(path.to_str().unwrap()).unwrap();
            let mut reader = ShmReader::new(&cpath).unwrap();
            let accesses = Rc::new(Cell::new(0u64));
            let step = Rc::new(Cell::new(0usize));
            let next = Rc::new(Cell::new(2u64));
            {
                let (w, a, st, n, pat, pth) = (writer.clone(), accesses.clone(), step.clone(), next.clone(), pattern.clone(), path.clone());
                set_handler(Some(Box::new(move |p: &Point| {
                    if p.site == "load.pre" || p.site == "rword.pre" {
                        a.set(a.get() + 1);
                        if a.get() > ACCESS_BOUND + 10 {
                            std::panic::panic_any("access bound exceeded");
                        }
                    }
                    if p.site == "rword.post" && p.word == 6 {
                        let leave_odd = pat[st.get() % pat.len()];
                        st.set(st.get() + 1);
                        let rec = encode(n.get());
                        n.set(n.get() + 1);
                        let mut slot = w.borrow_mut();
                        let mut wr = slot.take().unwrap();
                        if leave_odd {
                            // begin an update and stop in it (after the odd store): the generation stays odd
                            set_handler(Some(Box::new(move |q: &Point| {
                                if q.site == "wword.pre" && q.word == 3 {
                                    std::panic::panic_any(7u8);
                                }
                            })));
                            let _ = std::panic::catch_unwind(std::panic::AssertUnwindSafe(|| wr.write(&rec)));
                            set_handler(None);
                            // (the writer object survives the unwinding; creating a new one per
                            // step would exhaust descriptors, ShmWriter never closes the one it maps)
                            let _ = &pth;
                        } else {
                            wr.write(&rec);
                        }
                        *slot = Some(wr);
                    }
                })));
            }
            let res = std::panic::catch_unwind(std::panic::AssertUnwindSafe(|| match reader.msnapshot() {
                Ok(c) => format!("{:?}", decode(c)),
                Err(e) => format!("Err({:?})", e),
            }));
            set_handler(None);
            evaluations += 1;
            max_accesses = max_accesses.max(accesses.get());
            match res {
                Ok(r) => {
                    if r.starts_with("Err") {
                        capped_calls += 1;
                    }
                    samples.push(json!({"case": format!("mixed-adversary-{}", name), "retries_forced": step.get(), "accesses": accesses.get(), "result": r}));
                }
                Err(_) => {
                    let rp = format!("{}/C18-mix-{}.json", replay_dir, name);
                    vworld::write_json(&rp, &json!({"property":"C18","engine":"c18cap","case":name,"accesses":accesses.get()}));
                    violations.push(json!({"sig":"unbounded-accesses","detail":format!("writer alternating in-flight / completed updates ({}): snapshot() exceeded {} shared accesses", name, ACCESS_BOUND),"replay":rp}));
                }
            }
            drop(reader);
            writer.borrow_mut().take();
        }
    }

    // (a3) The one-update-per-retry adversary from many start generations (all even ones with
    // --allgens 1): the retry accounting must not depend on where the counter wraps.
    let allgens = arg_u64(args, "allgens", 0) == 1;
    let mut gens: Vec<u16> = vec![2, 4, 31614, 31616, 31618, 32766, 32768, 65530, 65532, 65534];
    if allgens {
        gens = (1..=32767u32).map(|k| (2 * k) as u16).collect();
    } else {
        let mut gr = Rng::new(arg_u64(args, "seed", 1) ^ 0xC18);
        for _ in 0..arg_u64(args, "gens", 150) {
            gens.push((2 * (1 + gr.below(32767))) as u16);
        }
    }
    let mut gen_cases = 0u64;
    for (gi, g0) in gens.iter().enumerate() {
        if (gi as u64) % _nshards != shard {
            continue;
        }
        let path = dir.join("gens");
        std::fs::write(&path, segment_bytes(1, *g0, 1)).unwrap();
        let writer = Rc::new(RefCell::new(new_writer(&path)));
        let cpath = CString::new(path.to_str().unwrap()).unwrap();
        let mut reader = ShmReader::new(&cpath).unwrap();
        let _ = reader.msnapshot();
        writer.borrow_mut().write(&encode(2));
        let accesses = Rc::new(Cell::new(0u64));
        let next = Rc::new(Cell::new(3u64));
        {
            let (w, a, n) = (writer.clone(), accesses.clone(), next.clone());
            set_handler(Some(Box::new(move |p: &Point| {
                if p.site == "load.pre" || p.site == "rword.pre" {
                    a.set(a.get() + 1);
                    if a.get() > ACCESS_BOUND + 10 {
                        std::panic::panic_any("access bound exceeded");
                    }
                }
                if p.site == "rword.post" && p.word == 6 {
                    w.borrow_mut().write(&encode(n.get()));
                    n.set(n.get() + 1);
                }
            })));
        }
        let res = std::panic::catch_unwind(std::panic::AssertUnwindSafe(|| reader.msnapshot().is_ok()));
        set_handler(None);
        evaluations += 1;
        gen_cases += 1;
        max_accesses = max_accesses.max(accesses.get());
        if res.is_err() {
            let rp = format!("{}/C18-gen-{}.json", replay_dir, g0);
            vworld::write_json(&rp, &json!({"property":"C18","engine":"c18cap","start_generation":g0,"accesses":accesses.get()}));
            violations.push(json!({"sig":"unbounded-accesses","detail":format!("one complete update per retry, generation {} when the call began: snapshot() exceeded {} shared accesses", g0.wrapping_add(2), ACCESS_BOUND),"replay":rp}));
        } else if let Ok(false) = res {
            capped_calls += 1;
        }
        drop(reader);
    }

    // (b) Writer stopped for ever at its k-th point, while the reader is at its j-th access.
    let mut stuck_cases = 0u64;
    for j in 0..12u64 {
        for k in 1..=12u64 {
            if (j * 12 + k) % _nshards != shard {
                continue;
            }
            let path = dir.join(format!("stuck{}_{}", j, k));
            std::fs::write(&path, segment_bytes(1, 6, 3)).unwrap();
            let cpath = CString::new(path.to_str().unwrap()).unwrap();
            let mut reader = ShmReader::new(&cpath).unwrap();
            let first = match reader.msnapshot() { Ok(c) => decode(c), Err(_) => Decoded::Initial };
            let writer = Rc::new(RefCell::new(Some(new_writer(&path))));
            // One complete update first so that the cached generation differs.
            writer.borrow_mut().as_mut().unwrap().write(&encode(4));
            let accesses = Rc::new(Cell::new(0u64));
            let fired = Rc::new(Cell::new(false));
            {
                let (w, a, f) = (writer.clone(), accesses.clone(), fired.clone());
                set_handler(Some(Box::new(move |p: &Point| {
                    if p.site == "load.pre" || p.site == "rword.pre" {
                        a.set(a.get() + 1);
                        if a.get() > ACCESS_BOUND + 10 {
                            std::panic::panic_any("access bound exceeded");
                        }
                        if a.get() == j + 1 && !f.get() {
                            f.set(true);
                            // The writer starts an update and dies at its k-th point. The nested
                            // points are not reported (the handler is running), so count here by
                            // running the update under its own handler on a helper thread-less
                            // trick: perform the steps of an interrupted update through the file.
                            if let Some(mut wr) = w.borrow_mut().take() {
                                let cnt = Rc::new(Cell::new(0u64));
                                let c2 = cnt.clone();
                                set_handler(Some(Box::new(move |q: &Point| {
                                    if !q.site.ends_with(".post") {
                                        c2.set(c2.get() + 1);
                                        if c2.get() == k {
                                            std::panic::panic_any(7u8);
                                        }
                                    }
                                })));
                                let _ = std::panic::catch_unwind(std::panic::AssertUnwindSafe(|| wr.write(&encode(5))));
                                set_handler(None);
                                drop(wr);
                            }
                        }
                    }
                })));
            }
            let res = std::panic::catch_unwind(std::panic::AssertUnwindSafe(|| match reader.msnapshot() {
                Ok(c) => format!("{:?}", decode(c)),
                Err(e) => format!("Err({:?})", e),
            }));
            set_handler(None);
            evaluations += 1;
            stuck_cases += 1;
            max_accesses = max_accesses.max(accesses.get());
            match res {
                Ok(r) => {
                    if r.starts_with("Err") {
                        capped_calls += 1;
                    }
                    if r.starts_with("Blend") {
                        let rp = format!("{}/C18-stuck-{}-{}.json", replay_dir, j, k);
                        vworld::write_json(&rp, &json!({"property":"C18","engine":"c18cap","reader_access":j,"writer_point":k,"result":r}));
                        violations.push(json!({"sig":"stuck-writer-torn","detail":format!("writer dead at its point {} while the reader was at access {}: {}", k, j, r),"replay":rp}));
                    }
                    if samples.len() < 8 && (k == 3 || k == 12) && j == 2 {
                        samples.push(json!({"case":"writer-dead", "writer_point": k, "reader_access": j, "first": format!("{:?}", first), "accesses": accesses.get(), "result": r}));
                    }
                }
                Err(_) => {
                    let rp = format!("{}/C18-stuck-{}-{}.json", replay_dir, j, k);
                    vworld::write_json(&rp, &json!({"property":"C18","engine":"c18cap","reader_access":j,"writer_point":k,"accesses":accesses.get()}));
                    violations.push(json!({"sig":"unbounded-accesses","detail":format!("writer dead at its point {} while the reader was at access {}: snapshot() exceeded {} shared accesses", k, j, ACCESS_BOUND),"replay":rp}));
                }
            }
            drop(reader);
            let _ = std::fs::remove_file(&path);
        }
    }
    // (c) Writer dead for ever at its k-th point; a client that attaches only afterwards makes its
    // very first call (nothing cached yet).
    let mut fresh_cases = 0u64;
    for k in 1..=12u64 {
        if k % _nshards != shard {
            continue;
        }
        for gen0 in [6u16, 65534, 1] {
            let path = dir.join(format!("fresh{}_{}", k, gen0));
            std::fs::write(&path, segment_bytes(1, gen0, 3)).unwrap();
            let cpath = CString::new(path.to_str().unwrap()).unwrap();
            {
                let mut wr = new_writer(&path);
                let cnt = Rc::new(Cell::new(0u64));
                let c2 = cnt.clone();
                set_handler(Some(Box::new(move |q: &Point| {
                    if !q.site.ends_with(".post") {
                        c2.set(c2.get() + 1);
                        if c2.get() == k {
                            std::panic::panic_any(7u8);
                        }
                    }
                })));
                let _ = std::panic::catch_unwind(std::panic::AssertUnwindSafe(|| wr.write(&encode(5))));
                set_handler(None);
                drop(wr);
            }
            let accesses = Rc::new(Cell::new(0u64));
            {
                let a = accesses.clone();
                set_handler(Some(Box::new(move |p: &Point| {
                    if p.site == "load.pre" || p.site == "rword.pre" {
                        a.set(a.get() + 1);
                        if a.get() > ACCESS_BOUND + 10 {
                            std::panic::panic_any("access bound exceeded");
                        }
                    }
                })));
            }
            let res = std::panic::catch_unwind(std::panic::AssertUnwindSafe(|| match ShmReader::new(&cpath) {
                Ok(mut r) => match r.msnapshot() {
                    Ok(c) => format!("{:?}", decode(c)),
                    Err(e) => format!("Err({:?})", e),
                },
                Err(e) => format!("OpenErr({:?})", e),
            }));
            set_handler(None);
            evaluations += 1;
            fresh_cases += 1;
            max_accesses = max_accesses.max(accesses.get());
            match res {
                Ok(r) => {
                    if r.starts_with("Blend") {
                        let rp = format!("{}/C18-fresh-{}-{}.json", replay_dir, k, gen0);
                        vworld::write_json(&rp, &json!({"property":"C18","engine":"c18cap","writer_point":k,"start_generation":gen0,"result":r}));
                        violations.push(json!({"sig":"stuck-writer-torn","detail":format!("writer dead at its point {} (start generation {}), first call of a new client: {}", k, gen0, r),"replay":rp}));
                    }
                    if samples.len() < 10 && k == 4 {
                        samples.push(json!({"case":"writer-dead-new-client", "writer_point": k, "start_generation": gen0, "accesses": accesses.get(), "result": r}));
                    }
                }
                Err(_) => {
                    let rp = format!("{}/C18-fresh-{}-{}.json", replay_dir, k, gen0);
                    vworld::write_json(&rp, &json!({"property":"C18","engine":"c18cap","writer_point":k,"start_generation":gen0,"accesses":accesses.get()}));
                    violations.push(json!({"sig":"unbounded-accesses","detail":format!("writer dead at its point {} (start generation {}): the first snapshot() of a new client exceeded {} shared accesses", k, gen0, ACCESS_BOUND),"replay":rp}));
                }
            }
            let _ = std::fs::remove_file(&path);
        }
    }
    let _ = std::fs::remove_dir_all(&dir);
    for msg in shmsim::metered::drain_unbounded() {
        violations.push(json!({"sig": "unbounded-work-in-one-call", "detail": msg, "replay": ""}));
    }
    json!({"evaluations": evaluations, "stuck_cases": stuck_cases, "new_client_cases": fresh_cases, "start_generation_cases": gen_cases, "max_accesses_per_call": max_accesses, "capped_calls": capped_calls, "violations": violations, "samples": samples})
}

// ------------------------------------------------------------------------------------------------
// Engine `stallproc`: the daemon is a separate process (hooks on) that stalls for ever, alive, at
// its k-th hook point of start-up or of an update; a client of this process then opens the segment
// and reads. Locks and anything else owned per process only show between processes. The client
// runs in a watched thread: the verdict on a call that has not come back is taken from what the
// thread is doing (/proc/self/task/<tid>/stat and /syscall), not from the time it took: a thread
// that sits in the same blocking system call, not runnable, while the only other party is
// stalled, is waiting for the daemon.

fn mode_stallchild(args: &std::collections::HashMap<String, String>) -> Value {
    use std::cell::Cell;
    use std::rc::Rc;
    let path = PathBuf::from(arg_str(args, "path", ""));
    let op_target = arg_u64(args, "op", 0) as usize;
    let k_target = arg_u64(args, "k", 1);
    let base = arg_u64(args, "base", 0);
    let op = Rc::new(Cell::new(0usize));
    let k = Rc::new(Cell::new(0u64));
    {
        let (op, k) = (op.clone(), k.clone());
        set_handler(Some(Box::new(move |p: &Point| {
            if p.site.ends_with(".post") {
                return;
            }
            k.set(k.get() + 1);
            if op.get() == op_target && k.get() == k_target {
                let out = std::io::stdout();
                let mut o = out.lock();
                let _ = writeln!(o, "STALLED {}[{}]", p.site, p.word);
                let _ = o.flush();
                drop(o);
                loop {
                    unsafe { libc::pause() };
                }
            }
        })));
    }
    let mut w: Option<ShmWriter> = None;
    for (i, o) in [WOp::New, WOp::Publish, WOp::Publish].iter().enumerate() {
        op.set(i);
        k.set(0);
        match o {
            WOp::New => w = Some(ShmWriter::new(&path).expect("ShmWriter::new")),
            WOp::Publish => w.as_mut().unwrap().write(&encode(base + i as u64)),
        }
    }
    set_handler(None);
    println!("DONE");
    std::process::exit(0);
}

fn syscall_name(n: i64) -> &'static str {
    match n {
        0 => "read", 1 => "write", 2 => "open", 3 => "close", 7 => "poll", 9 => "mmap", 23 => "select", 35 => "nanosleep", 72 => "fcntl", 73 => "flock",
        202 => "futex", 230 => "clock_nanosleep", 232 => "epoll_wait", 257 => "openat", 271 => "ppoll", 281 => "epoll_pwait", _ => "?",
    }
}

fn mode_stallproc(args: &std::collections::HashMap<String, String>) -> Value {
    use std::io::{BufRead, BufReader};
    use std::process::{Command, Stdio};
    use std::sync::atomic::{AtomicI64, Ordering};
    use std::sync::mpsc;
    use std::sync::Arc;
    let replay_dir = arg_str(args, "replays", "/verif/replays");
    let (shard, nshards) = shard_of(args);
    let dir = workdir();
    let me = std::env::current_exe().unwrap();
    let mut violations: Vec<Value> = Vec::new();
    let mut samples = Vec::new();
    let mut cells: BTreeMap<String, u64> = BTreeMap::new();
    let mut outcomes: BTreeMap<String, u64> = BTreeMap::new();
    let mut evaluations = 0u64;
    let mut inconclusive = 0u64;
    for (si, start) in enum_starts().iter().enumerate() {
        if matches!(start, Start::NoDir) {
            continue;
        }
        let (_, p0, _) = start.progress();
        for op in 0..3usize {
            if ((si * 3 + op) as u64) % nshards != shard {
                continue;
            }
            let mut k = 0u64;
            loop {
                k += 1;
                if k > 200 {
                    break;
                }
                let path = dir.join(format!("stall-{}", si));
                start.prepare(&path);
                let mut child = match Command::new(&me)
                    .args(["stallchild", "--path", path.to_str().unwrap(), "--op", &op.to_string(), "--k", &k.to_string(), "--base", &(p0 + 1).to_string()])
                    .stdin(Stdio::null())
                    .stdout(Stdio::piped())
                    .stderr(Stdio::null())
                    .spawn()
                {
                    Ok(c) => c,
                    Err(_) => {
                        inconclusive += 1;
                        continue;
                    }
                };
                let mut line = String::new();
                let _ = BufReader::new(child.stdout.take().unwrap()).read_line(&mut line);
                if !line.starts_with("STALLED") {
                    // the op has fewer than k points (or the child failed): next op
                    let _ = child.kill();
                    let _ = child.wait();
                    if line.starts_with("DONE") {
                        break;
                    }
                    inconclusive += 1;
                    break;
                }
                let site = line.trim()[8..].to_string();
                // The client, in a watched thread.
                let tid = Arc::new(AtomicI64::new(0));
                let (tx, rx) = mpsc::channel::<String>();
                let cpath = CString::new(path.to_str().unwrap()).unwrap();
                let t2 = tid.clone();
                let h = std::thread::spawn(move || {
                    t2.store(unsafe { libc::syscall(libc::SYS_gettid) } as i64, Ordering::SeqCst);
                    let r = match ShmReader::new(&cpath) {
                        Ok(mut r) => {
                            let mut last = String::new();
                            for _ in 0..3 {
                                last = match r.msnapshot() {
                                    Ok(c) => format!("{:?}", decode(c)),
                                    Err(e) => format!("Err({:?})", e),
                                };
                            }
                            format!("opened, snapshot {}", last)
                        }
                        Err(e) => format!("open failed: {:?}", e),
                    };
                    let _ = tx.send(r);
                });
                let mut result: Option<String> = rx.recv_timeout(std::time::Duration::from_millis(200)).ok();
                let mut blocked: Option<String> = None;
                if result.is_none() {
                    // Not back yet: what is the thread doing?
                    let t = tid.load(Ordering::SeqCst);
                    let mut same = 0;
                    let mut last_sys = String::new();
                    for _ in 0..600 {
                        if let Ok(r) = rx.recv_timeout(std::time::Duration::from_millis(50)) {
                            result = Some(r);
                            break;
                        }
                        let stat = std::fs::read_to_string(format!("/proc/self/task/{}/stat", t)).unwrap_or_default();
                        let state = stat.rsplit(')').next().and_then(|r| r.split_whitespace().next()).unwrap_or("?").to_string();
                        let sys = std::fs::read_to_string(format!("/proc/self/task/{}/syscall", t)).unwrap_or_default();
                        let nr = sys.split_whitespace().next().unwrap_or("?").to_string();
                        if (state == "S" || state == "D") && nr != "running" && nr != "?" && nr != "-1" {
                            if nr == last_sys {
                                same += 1;
                            } else {
                                same = 1;
                                last_sys = nr.clone();
                            }
                        } else {
                            same = 0;
                        }
                        if same >= 40 {
                            let n: i64 = nr.parse().unwrap_or(-1);
                            blocked = Some(format!("system call {} ({}), thread state {}, for 40 consecutive samples over 2 s", n, syscall_name(n), state));
                            break;
                        }
                    }
                }
                // Let the daemon go (dead now): whatever the client waited for is released.
                let _ = child.kill();
                let _ = child.wait();
                let finished = if result.is_none() { rx.recv_timeout(std::time::Duration::from_secs(20)).ok() } else { result.clone() };
                if finished.is_some() {
                    let _ = h.join();
                }
                evaluations += 1;
                *cells.entry(format!("{:02}:{}|op{}|{}", si, start.name(), op, site)).or_insert(0) += 1;
                if let Some(b) = blocked {
                    *outcomes.entry("blocked-on-stalled-daemon".into()).or_insert(0) += 1;
                    if violations.len() < 10 {
                        let rp = format!("{}/C18-stallproc-{}-{}-{}.json", replay_dir, si, op, k);
                        vworld::write_json(&rp, &json!({"property":"C18","engine":"stallproc","start":start.to_json(),"op":op,"k":k,"site":site,"blocked":b}));
                        violations.push(json!({"sig":"client-blocked-on-stalled-daemon","detail":format!("daemon process alive but stalled at {} of op {} (start state {}): the client's open/snapshot did not come back, its thread sat in {}; it came back only once the daemon process was killed ({})", site, op, start.name(), b, finished.clone().unwrap_or_else(|| "not even then".into())),"replay":rp}));
                    }
                } else if let Some(r) = result {
                    let key = if r.starts_with("open failed") { "open-error" } else if r.contains("Err(") { "snapshot-error" } else { "answered" };
                    *outcomes.entry(key.into()).or_insert(0) += 1;
                    if samples.len() < 4 && evaluations % 37 == 1 {
                        samples.push(json!({"start": start.name(), "op": op, "stalled_at": site, "client": r}));
                    }
                } else {
                    // still running (never seen blocked): cannot tell on this machine
                    inconclusive += 1;
                }
            }
        }
    }
    for msg in shmsim::metered::drain_unbounded() {
        violations.push(json!({"sig": "unbounded-work-in-one-call", "detail": msg, "replay": ""}));
    }
    let _ = std::fs::remove_dir_all(&dir);
    json!({"evaluations": evaluations, "cells": cells, "outcomes": outcomes, "inconclusive_cases": inconclusive, "violations": violations, "samples": samples})
}

// ------------------------------------------------------------------------------------------------
// The generation is a 16-bit counter that skips 0: 32767 publications bring it back to the value a
// reader loaded before it started to copy. `aba` stalls a reader after its k-th word while exactly
// c x 32767 publications complete, and reports what the call then returns.
fn mode_aba(args: &std::collections::HashMap<String, String>) -> Value {
    use std::cell::{Cell, RefCell};
    use std::rc::Rc;
    let (shard, nshards) = shard_of(args);
    let dir = workdir();
    let mut violations: Vec<Value> = Vec::new();
    let mut evaluations = 0u64;
    let mut blends = 0u64;
    let mut samples = Vec::new();
    let mut job = 0u64;
    for g0 in [2u16, 40000, 65534] {
        for k in 0..6usize {
            for cycles in [1u64, 2] {
                job += 1;
                if job % nshards != shard {
                    continue;
                }
                let path = dir.join(format!("aba{}", job));
                std::fs::write(&path, segment_bytes(1, g0, 1)).unwrap();
                let writer = Rc::new(RefCell::new(new_writer(&path)));
                let cpath = CString::new(path.to_str().unwrap()).unwrap();
                let mut reader = ShmReader::new(&cpath).unwrap();
                let _ = reader.msnapshot();
                writer.borrow_mut().write(&encode(2));
                let fired = Rc::new(Cell::new(false));
                {
                    let (w, f) = (writer.clone(), fired.clone());
                    set_handler(Some(Box::new(move |p: &Point| {
                        if p.site == "rword.post" && p.word == k && !f.get() {
                            f.set(true);
                            for n in 0..32767 * cycles {
                                w.borrow_mut().write(&encode(3 + n));
                            }
                        }
                    })));
                }
                let res = reader.msnapshot().map(decode);
                set_handler(None);
                evaluations += 1;
                if let Ok(Decoded::Blend(wd)) = &res {
                    blends += 1;
                    let origin = shmsim::record::blend_origin(wd);
                    if violations.len() < 6 {
                        violations.push(json!({"sig": "generation-aba-blend", "detail": format!("reader stalled after copying word {} while exactly {} x 32767 publications completed (generation {} before and after): snapshot() returned words of publications {:?}", k, cycles, g0.wrapping_add(2), origin), "replay": ""}));
                    }
                    if samples.len() < 2 {
                        samples.push(json!({"stalled_after_word": k, "publications_meanwhile": 32767 * cycles, "returned_words_of_publications": origin}));
                    }
                } else if let Ok(Decoded::Publication(i)) = res {
                    if samples.len() < 3 {
                        samples.push(json!({"stalled_after_word": k, "publications_meanwhile": 32767 * cycles, "returned_publication": i}));
                    }
                }
                drop(reader);
            }
        }
    }
    let _ = std::fs::remove_dir_all(&dir);
    json!({"evaluations": evaluations, "blends_accepted": blends, "violations": violations, "samples": samples})
}

fn mode_replay(args: &std::collections::HashMap<String, String>) -> Value {
    let file = arg_str(args, "file", "");
    let v: Value = vworld::serde_json::from_str(&std::fs::read_to_string(&file).expect("replay file")).expect("json");
    let sc = Scenario::from_json(&v["scenario"]);
    let dir = workdir();
    let out = run_scenario(&sc, &dir, false, true);
    let _ = std::fs::remove_dir_all(&dir);
    json!({"violations": out.violations.iter().map(|v| json!({"property": v.property, "sig": v.sig, "detail": v.detail})).collect::<Vec<_>>(), "witness": out.witness, "steps": out.steps})
}

fn main() {
    install_quiet_panic_hook();
    let args = parse_args();
    let mode = args.get("_").cloned().unwrap_or_default();
    let t0 = std::time::Instant::now();
    // Signals arriving on whatever thread runs the code under test (no-op handler, no SA_RESTART):
    // always for the retry-cap cases, on odd shards for the scheduler engines.
    let (shard, _) = shard_of(&args);
    // --signals 1 (default): odd shards of the scheduler engines; 2: shard 1 only (long runs: the
    // timer costs the token scheduler a multiple of its run time); 0: never
    let sig_policy = arg_u64(&args, "signals", 1);
    let signals = match mode.as_str() {
        "c18cap" => 150,
        "sched" | "stopenum" | "c03long" if (sig_policy == 1 && shard % 2 == 1) || (sig_policy == 2 && shard == 1) => 2000,
        _ => 0,
    };
    if signals > 0 {
        vworld::meter::start_signals(signals);
    }
    if mode == "c18cap" {
        // standard error is a full pipe that nobody drains: writing to it inside a call = hanging
        vworld::meter::stderr_blocks(true);
    }
    let mut v = match mode.as_str() {
        "sched" => mode_sched(&args),
        "stopenum" => mode_stopenum(&args),
        "c11sweep" => mode_c11sweep(&args),
        "c03long" => mode_c03long(&args),
        "c18cap" => mode_c18cap(&args),
        "stallproc" => mode_stallproc(&args),
        "aba" => mode_aba(&args),
        "stallchild" => mode_stallchild(&args),
        "replay" => mode_replay(&args),
        m => panic!("unknown mode {:?}", m),
    };
    vworld::meter::stop_signals();
    v["hostile_caller_state"] = json!({"errno_values": vworld::meter::ERRNOS.len(), "signal_period_us": signals, "signals_delivered": vworld::meter::SIGNALS_DELIVERED.load(std::sync::atomic::Ordering::Relaxed), "metered_calls": shmsim::metered::calls()});
    v["wall_s"] = json!(t0.elapsed().as_secs_f64());
    let out = arg_str(&args, "out", "");
    if out.is_empty() {
        println!("{}", vworld::serde_json::to_string_pretty(&v).unwrap());
    } else {
        vworld::write_json(&out, &v);
    }
    let _ = Path::new("/");
}

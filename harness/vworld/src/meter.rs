//! Work meter and hostile caller state.
//!
//! "A call returns after a bounded amount of work" cannot be judged by wall-clock time on a loaded
//! machine, so the harness counts the things a call can loop on: clock reads (the `clock_gettime`
//! interposer of `clock`) and sleeps (`nanosleep` / `clock_nanosleep`, interposed here). The
//! counters are per thread and reset by `begin_call()`. Once a call exceeds `LIMIT` of either, the
//! interposers note it and defuse the loop they are called from (the sleep reports success, the
//! clock read clears `errno`), so that the call comes back and the harness can report what it saw
//! through its ordinary channel instead of hanging.
//!
//! Hostile caller state is everything a library call inherits from its caller and must not depend
//! on: the thread's `errno`, signals arriving on the thread (a no-op handler installed without
//! SA_RESTART, driven by an interval timer), an unwritable standard error.

use std::cell::Cell;
use std::sync::atomic::{AtomicU64, Ordering};

/// Far above anything a correct call does (now(): 3 clock reads, no sleep).
pub const LIMIT: u64 = 20_000;

thread_local! {
    static READS: Cell<u64> = const { Cell::new(0) };
    static SLEEPS: Cell<u64> = const { Cell::new(0) };
    static METERED: Cell<bool> = const { Cell::new(false) };
    static TRIPPED: Cell<u8> = const { Cell::new(0) };
}

pub static SIGNALS_DELIVERED: AtomicU64 = AtomicU64::new(0);
pub static SLEEPS_TOTAL: AtomicU64 = AtomicU64::new(0);

/// Start metering the calling thread's next library call.
pub fn begin_call() {
    READS.with(|c| c.set(0));
    SLEEPS.with(|c| c.set(0));
    TRIPPED.with(|c| c.set(0));
    METERED.with(|c| c.set(true));
}

/// Stop metering; returns a description when the call exceeded the work limit.
pub fn end_call() -> Option<String> {
    METERED.with(|c| c.set(false));
    let t = TRIPPED.with(|c| c.get());
    if t == 0 {
        return None;
    }
    let (r, s) = (READS.with(|c| c.get()), SLEEPS.with(|c| c.get()));
    if t & 4 != 0 {
        return Some("one call wrote to standard error, which here is a full pipe that nobody drains: the write, and with it the call, would never return".to_string());
    }
    Some(format!(
        "one call made more than {} {} (clock reads {}, sleeps {}) and only came back because the harness broke the loop",
        LIMIT,
        if t & 1 != 0 { "clock reads" } else { "sleeps" },
        r,
        s
    ))
}

pub fn counts() -> (u64, u64) {
    (READS.with(|c| c.get()), SLEEPS.with(|c| c.get()))
}

/// Called by the clock interposer for every read of a metered thread.
pub(crate) fn note_clock_read() {
    if !METERED.with(|c| c.get()) {
        return;
    }
    let n = READS.with(|c| {
        c.set(c.get() + 1);
        c.get()
    });
    if n > LIMIT {
        TRIPPED.with(|c| c.set(c.get() | 1));
        set_errno(0);
    }
}

fn note_sleep() -> bool {
    SLEEPS_TOTAL.fetch_add(1, Ordering::Relaxed);
    if !METERED.with(|c| c.get()) {
        return false;
    }
    let n = SLEEPS.with(|c| {
        c.set(c.get() + 1);
        c.get()
    });
    if n > LIMIT {
        TRIPPED.with(|c| c.set(c.get() | 2));
        return true;
    }
    false
}

pub fn set_errno(v: i32) {
    unsafe { *libc::__errno_location() = v };
}

pub fn errno() -> i32 {
    unsafe { *libc::__errno_location() }
}

/// Values a thread's errno may hold when it calls into the library (0 = clean).
pub const ERRNOS: [i32; 8] = [0, libc::EINTR, libc::EAGAIN, libc::ENOMEM, libc::EBADF, libc::EINVAL, libc::ENOENT, libc::ERANGE];

/// # Safety
/// Same contract as nanosleep(2).
#[cfg(not(miri))]
#[no_mangle]
pub unsafe extern "C" fn nanosleep(req: *const libc::timespec, rem: *mut libc::timespec) -> libc::c_int {
    if note_sleep() {
        return 0;
    }
    libc::syscall(libc::SYS_nanosleep, req, rem) as libc::c_int
}

/// # Safety
/// Same contract as clock_nanosleep(2) (returns the error number, does not set errno).
#[cfg(not(miri))]
#[no_mangle]
pub unsafe extern "C" fn clock_nanosleep(clk: libc::clockid_t, flags: libc::c_int, req: *const libc::timespec, rem: *mut libc::timespec) -> libc::c_int {
    if note_sleep() {
        return 0;
    }
    let saved = errno();
    let r = libc::syscall(libc::SYS_clock_nanosleep, clk as libc::c_long, flags as libc::c_long, req, rem);
    if r == -1 {
        let e = errno();
        set_errno(saved);
        return e;
    }
    0
}

extern "C" {
    fn setitimer(which: libc::c_int, new: *const libc::itimerval, old: *mut libc::itimerval) -> libc::c_int;
}

extern "C" fn on_signal(_sig: libc::c_int) {
    SIGNALS_DELIVERED.fetch_add(1, Ordering::Relaxed);
}

/// Deliver SIGALRM to the process every `period_us` microseconds (real time); the handler does
/// nothing and is installed without SA_RESTART, so interruptible system calls see EINTR.
pub fn start_signals(period_us: i64) {
    unsafe {
        let mut sa: libc::sigaction = std::mem::zeroed();
        sa.sa_sigaction = on_signal as usize;
        sa.sa_flags = 0;
        libc::sigemptyset(&mut sa.sa_mask);
        libc::sigaction(libc::SIGALRM, &sa, std::ptr::null_mut());
        let iv = libc::itimerval {
            it_interval: libc::timeval { tv_sec: 0, tv_usec: period_us },
            it_value: libc::timeval { tv_sec: 0, tv_usec: period_us },
        };
        setitimer(libc::ITIMER_REAL, &iv, std::ptr::null_mut());
    }
}

pub fn stop_signals() {
    unsafe {
        let iv: libc::itimerval = std::mem::zeroed();
        setitimer(libc::ITIMER_REAL, &iv, std::ptr::null_mut());
    }
}

/// Block SIGALRM on the calling thread (harness threads that should not absorb the signals meant
/// for the thread running the code under test).
pub fn block_signals_here() {
    unsafe {
        let mut set: libc::sigset_t = std::mem::zeroed();
        libc::sigemptyset(&mut set);
        libc::sigaddset(&mut set, libc::SIGALRM);
        libc::pthread_sigmask(libc::SIG_BLOCK, &set, std::ptr::null_mut());
    }
}

/// Point standard error at a sink that refuses every write (ENOSPC), as a full log disk does.
pub fn stderr_unwritable() -> bool {
    unsafe {
        let fd = libc::open(c"/dev/full".as_ptr(), libc::O_WRONLY);
        if fd < 0 {
            return false;
        }
        let ok = libc::dup2(fd, 2) == 2;
        libc::close(fd);
        ok
    }
}

thread_local! {
    static FAIL_MMAP: Cell<i32> = const { Cell::new(0) };
}
pub static MMAP_FAILURES_INJECTED: AtomicU64 = AtomicU64::new(0);

/// Make every file-backed mmap() of the calling thread fail with `errno` (0 = stop failing): what a
/// process at its address-space or mapping-count limit, or a file system without shared mappings
/// (ENODEV), gives a client at the moment it opens the segment.
pub fn fail_mmap(errno: i32) {
    FAIL_MMAP.with(|c| c.set(errno));
}

unsafe fn mmap_impl(addr: *mut libc::c_void, len: libc::size_t, prot: libc::c_int, flags: libc::c_int, fd: libc::c_int, off: libc::off_t) -> *mut libc::c_void {
    let e = FAIL_MMAP.with(|c| c.get());
    if e != 0 && fd >= 0 && flags & libc::MAP_ANONYMOUS == 0 {
        MMAP_FAILURES_INJECTED.fetch_add(1, Ordering::Relaxed);
        set_errno(e);
        return libc::MAP_FAILED;
    }
    libc::syscall(libc::SYS_mmap, addr, len, prot as libc::c_long, flags as libc::c_long, fd as libc::c_long, off) as *mut libc::c_void
}

/// # Safety
/// Same contract as mmap(2).
#[cfg(not(miri))]
#[no_mangle]
pub unsafe extern "C" fn mmap(addr: *mut libc::c_void, len: libc::size_t, prot: libc::c_int, flags: libc::c_int, fd: libc::c_int, off: libc::off_t) -> *mut libc::c_void {
    mmap_impl(addr, len, prot, flags, fd, off)
}

/// # Safety
/// Same contract as mmap(2).
#[cfg(not(miri))]
#[no_mangle]
pub unsafe extern "C" fn mmap64(addr: *mut libc::c_void, len: libc::size_t, prot: libc::c_int, flags: libc::c_int, fd: libc::c_int, off: libc::off_t) -> *mut libc::c_void {
    mmap_impl(addr, len, prot, flags, fd, off)
}

thread_local! {
    static FAIL_READ: Cell<(i32, u32)> = const { Cell::new((0, 0)) };
    static FAIL_READ_PATH: std::cell::RefCell<Option<std::path::PathBuf>> = const { std::cell::RefCell::new(None) };
}
pub static READ_FAILURES_INJECTED: AtomicU64 = AtomicU64::new(0);
pub static SHORT_READS_INJECTED: AtomicU64 = AtomicU64::new(0);
pub static WRITE_FAILURES_INJECTED: AtomicU64 = AtomicU64::new(0);
pub static BLOCKING_STDERR_WRITES: AtomicU64 = AtomicU64::new(0);
static STDERR_BLOCKS: std::sync::atomic::AtomicBool = std::sync::atomic::AtomicBool::new(false);

thread_local! {
    static SHORT_READ: Cell<usize> = const { Cell::new(0) };
    static FAIL_WRITE: Cell<(i32, u32, u32)> = const { Cell::new((0, 0, 0)) };
    static FAIL_WRITE_PATH: std::cell::RefCell<Option<std::path::PathBuf>> = const { std::cell::RefCell::new(None) };
}

/// read() calls of the calling thread on a descriptor open on `path` return at most `max` bytes
/// each (0 = whatever the kernel gives): a pipe, a FUSE file or a chunking driver does that.
pub fn short_reads_of(path: &str, max: usize) {
    SHORT_READ.with(|c| c.set(max));
    if max > 0 {
        FAIL_READ_PATH.with(|p| *p.borrow_mut() = Some(std::fs::canonicalize(path).unwrap_or_else(|_| std::path::PathBuf::from(path))));
    }
}

/// write() calls of the calling thread on a descriptor open on `path` fail with `errno`, from the
/// (`after` + 1)-th on, `times` times (a file system that has just filled up).
pub fn fail_writes_of(path: &str, errno: i32, after: u32, times: u32) {
    FAIL_WRITE.with(|c| c.set((errno, after, times)));
    FAIL_WRITE_PATH.with(|p| *p.borrow_mut() = if times > 0 { Some(std::path::PathBuf::from(path)) } else { None });
}

/// From now on standard error is taken to be a pipe that is full and that nobody drains: a write
/// to it from inside a metered call would never return; the interposer notes it and fails the
/// write with EAGAIN instead (harness threads outside metered calls are not affected).
pub fn stderr_blocks(on: bool) {
    STDERR_BLOCKS.store(on, Ordering::SeqCst);
}

fn fd_target_is(fd: libc::c_int, path: &std::path::Path) -> bool {
    let mut link = [0u8; 512];
    let name = format!("/proc/self/fd/{}\0", fd);
    let k = unsafe { libc::syscall(libc::SYS_readlink, name.as_ptr(), link.as_mut_ptr(), link.len()) };
    if k <= 0 {
        return false;
    }
    let got = &link[..k as usize];
    let want = path.as_os_str().as_encoded_bytes();
    // (a deleted or renamed-over file shows with a " (deleted)" suffix)
    got == want || std::fs::canonicalize(path).map(|c| c.as_os_str().as_encoded_bytes() == got).unwrap_or(false)
}

/// # Safety
/// Same contract as write(2).
#[cfg(not(miri))]
#[no_mangle]
pub unsafe extern "C" fn write(fd: libc::c_int, buf: *const libc::c_void, n: libc::size_t) -> libc::ssize_t {
    if fd == 2 && STDERR_BLOCKS.load(Ordering::Relaxed) && METERED.try_with(|c| c.get()).unwrap_or(false) {
        BLOCKING_STDERR_WRITES.fetch_add(1, Ordering::Relaxed);
        TRIPPED.with(|c| c.set(c.get() | 4));
        set_errno(libc::EAGAIN);
        return -1;
    }
    let (e, after, times) = FAIL_WRITE.try_with(|c| c.get()).unwrap_or((0, 0, 0));
    if times > 0 && fd > 2 {
        let hit = FAIL_WRITE_PATH.with(|p| p.borrow().as_ref().map(|p| fd_target_is(fd, p)).unwrap_or(false));
        if hit {
            if after > 0 {
                FAIL_WRITE.with(|c| c.set((e, after - 1, times)));
            } else {
                FAIL_WRITE.with(|c| c.set((e, 0, times - 1)));
                WRITE_FAILURES_INJECTED.fetch_add(1, Ordering::Relaxed);
                set_errno(e);
                return -1;
            }
        }
    }
    libc::syscall(libc::SYS_write, fd as libc::c_long, buf, n) as libc::ssize_t
}

/// The next `times` read() calls of the calling thread on a descriptor open on `path` fail with
/// `errno` (times = 0: stop failing): a device-backed sysfs attribute that is busy, a process
/// short of memory ...
pub fn fail_reads_of(path: &str, errno: i32, times: u32) {
    FAIL_READ.with(|c| c.set((errno, times)));
    // (descriptors are matched through /proc/self/fd, which shows the path with symlinks resolved)
    FAIL_READ_PATH.with(|p| *p.borrow_mut() = if times > 0 { Some(std::fs::canonicalize(path).unwrap_or_else(|_| std::path::PathBuf::from(path))) } else { None });
}

/// # Safety
/// Same contract as read(2).
#[cfg(not(miri))]
#[no_mangle]
pub unsafe extern "C" fn read(fd: libc::c_int, buf: *mut libc::c_void, n: libc::size_t) -> libc::ssize_t {
    let (e, left) = FAIL_READ.try_with(|c| c.get()).unwrap_or((0, 0));
    if left > 0 {
        let mut link = [0u8; 256];
        let name = format!("/proc/self/fd/{}\0", fd);
        let k = libc::syscall(libc::SYS_readlink, name.as_ptr(), link.as_mut_ptr(), link.len());
        let hit = k > 0 && FAIL_READ_PATH.with(|p| p.borrow().as_ref().map(|p| p.as_os_str().as_encoded_bytes() == &link[..k as usize]).unwrap_or(false));
        if hit {
            FAIL_READ.with(|c| c.set((e, left - 1)));
            READ_FAILURES_INJECTED.fetch_add(1, Ordering::Relaxed);
            set_errno(e);
            return -1;
        }
    }
    let short = SHORT_READ.try_with(|c| c.get()).unwrap_or(0);
    if short > 0 && n > short {
        let hit = FAIL_READ_PATH.with(|p| p.borrow().as_ref().map(|p| fd_target_is(fd, p)).unwrap_or(false));
        if hit {
            SHORT_READS_INJECTED.fetch_add(1, Ordering::Relaxed);
            return libc::syscall(libc::SYS_read, fd as libc::c_long, buf, short) as libc::ssize_t;
        }
    }
    libc::syscall(libc::SYS_read, fd as libc::c_long, buf, n) as libc::ssize_t
}

/// xoshiro256** seeded through splitmix64. Deterministic across platforms and builds.
#[derive(Clone, Debug)]
pub struct Rng {
    s: [u64; 4],
}

fn splitmix(x: &mut u64) -> u64 {
    *x = x.wrapping_add(0x9E37_79B9_7F4A_7C15);
    let mut z = *x;
    z = (z ^ (z >> 30)).wrapping_mul(0xBF58_476D_1CE4_E5B9);
    z = (z ^ (z >> 27)).wrapping_mul(0x94D0_49BB_1331_11EB);
    z ^ (z >> 31)
}

impl Rng {
    pub fn new(seed: u64) -> Rng {
        let mut x = seed;
        Rng {
            s: [splitmix(&mut x), splitmix(&mut x), splitmix(&mut x), splitmix(&mut x)],
        }
    }

    /// Derive an independent stream.
    pub fn fork(&mut self, salt: u64) -> Rng {
        Rng::new(self.next() ^ salt.wrapping_mul(0xA24B_AED4_963E_E407))
    }

    pub fn next(&mut self) -> u64 {
        let result = self.s[1].wrapping_mul(5).rotate_left(7).wrapping_mul(9);
        let t = self.s[1] << 17;
        self.s[2] ^= self.s[0];
        self.s[3] ^= self.s[1];
        self.s[1] ^= self.s[2];
        self.s[0] ^= self.s[3];
        self.s[2] ^= t;
        self.s[3] = self.s[3].rotate_left(45);
        result
    }

    /// Uniform in [0, n). n must be > 0.
    pub fn below(&mut self, n: u64) -> u64 {
        debug_assert!(n > 0);
        ((self.next() as u128 * n as u128) >> 64) as u64
    }

    /// Uniform in [lo, hi] (inclusive).
    pub fn range(&mut self, lo: i64, hi: i64) -> i64 {
        debug_assert!(lo <= hi);
        let span = (hi as i128 - lo as i128 + 1) as u128;
        if span > u64::MAX as u128 {
            return self.next() as i64;
        }
        (lo as i128 + self.below(span as u64) as i128) as i64
    }

    pub fn chance(&mut self, num: u64, den: u64) -> bool {
        self.below(den) < num
    }

    pub fn pick<'a, T>(&mut self, items: &'a [T]) -> &'a T {
        &items[self.below(items.len() as u64) as usize]
    }

    /// A value with a random magnitude: uniform bit-length in [0, max_bits], then uniform below.
    pub fn magnitude(&mut self, max_bits: u32) -> u64 {
        let bits = self.below(max_bits as u64 + 1) as u32;
        if bits == 0 {
            0
        } else if bits >= 64 {
            self.next()
        } else {
            (1u64 << (bits - 1)) | (self.next() & ((1u64 << (bits - 1)) - 1))
        }
    }
}

//! Process-wide `clock_gettime` interposer.
//!
//! Every harness executable links this crate, hence defines the symbol `clock_gettime` itself. The
//! static linker resolves std's and libc's references to it in preference to glibc's, so
//! `clock_gettime_safe`, `Instant::now()` and `SystemTime::now()` of the code under test all read
//! a clock the harness owns. While no source is installed the call falls through to the kernel.

use std::sync::atomic::{AtomicBool, AtomicU64, Ordering};
use std::sync::Mutex;

/// A source of virtual time: given the clock id, returns (tv_sec, tv_nsec).
pub type Source = Box<dyn FnMut(i32) -> (i64, i64) + Send>;

static ENABLED: AtomicBool = AtomicBool::new(false);
/// When set, only threads that opted in read virtual time (harness threads keep the real clock,
/// which their own timed waits need).
static PER_THREAD: AtomicBool = AtomicBool::new(false);

thread_local! {
    static THIS_THREAD: std::cell::Cell<bool> = const { std::cell::Cell::new(false) };
}

/// Make the virtual source apply only to threads that call `set_thread_virtual(true)`.
pub fn per_thread_mode(on: bool) {
    PER_THREAD.store(on, Ordering::SeqCst);
}

/// Opt the calling thread in or out of virtual time (only meaningful in per-thread mode).
pub fn set_thread_virtual(on: bool) -> bool {
    THIS_THREAD.with(|t| t.replace(on))
}

/// Run `f` with the calling thread reading virtual time.
pub fn with_virtual<R>(f: impl FnOnce() -> R) -> R {
    let prev = set_thread_virtual(true);
    let r = f();
    set_thread_virtual(prev);
    r
}
static READS: AtomicU64 = AtomicU64::new(0);
static SOURCE: Mutex<Option<Source>> = Mutex::new(None);

/// Install a source of virtual time for every thread of the process.
pub fn install(source: Source) {
    *SOURCE.lock().unwrap_or_else(|e| e.into_inner()) = Some(source);
    ENABLED.store(true, Ordering::SeqCst);
}

/// Remove the source; clock reads fall through to the kernel again.
pub fn uninstall() {
    ENABLED.store(false, Ordering::SeqCst);
    *SOURCE.lock().unwrap_or_else(|e| e.into_inner()) = None;
}

/// Number of clock reads served by a virtual source so far.
pub fn virtual_reads() -> u64 {
    READS.load(Ordering::SeqCst)
}

/// Read the kernel clock, bypassing the interposer.
pub fn real_clock_ns(clk: i32) -> i128 {
    let mut ts = libc::timespec {
        tv_sec: 0,
        tv_nsec: 0,
    };
    unsafe { libc::syscall(libc::SYS_clock_gettime, clk as libc::c_long, &mut ts as *mut libc::timespec) };
    ts.tv_sec as i128 * 1_000_000_000 + ts.tv_nsec as i128
}

/// The interposed symbol.
///
/// # Safety
/// Same contract as clock_gettime(2).
#[cfg(not(miri))]
#[no_mangle]
pub unsafe extern "C" fn clock_gettime(clk: libc::clockid_t, ts: *mut libc::timespec) -> libc::c_int {
    if ENABLED.load(Ordering::SeqCst) && (!PER_THREAD.load(Ordering::SeqCst) || THIS_THREAD.with(|t| t.get())) {
        let mut guard = SOURCE.lock().unwrap_or_else(|e| e.into_inner());
        if let Some(source) = guard.as_mut() {
            let (sec, nsec) = source(clk);
            READS.fetch_add(1, Ordering::SeqCst);
            drop(guard);
            crate::meter::note_clock_read();
            (*ts).tv_sec = sec;
            (*ts).tv_nsec = nsec;
            return 0;
        }
    }
    libc::syscall(libc::SYS_clock_gettime, clk as libc::c_long, ts) as libc::c_int
}

/// Simplest source: two settable clocks (realtime, and one value for every monotonic-like id).
pub mod fixed {
    use std::sync::atomic::{AtomicI64, AtomicU64, Ordering};

    /// Clock ids of the reads served since the last `take_order()`, packed 4 bits each (id + 1),
    /// oldest first; at most 16 are kept.
    static ORDER: AtomicU64 = AtomicU64::new(0);

    /// Returns the clock ids read since the previous call, oldest first.
    pub fn take_order() -> Vec<i32> {
        let mut v = ORDER.swap(0, Ordering::SeqCst);
        let mut out = Vec::new();
        while v != 0 {
            out.push((v & 0xf) as i32 - 1);
            v >>= 4;
        }
        out.reverse();
        out
    }

    pub static REAL_SEC: AtomicI64 = AtomicI64::new(0);
    pub static REAL_NSEC: AtomicI64 = AtomicI64::new(0);
    pub static MONO_SEC: AtomicI64 = AtomicI64::new(0);
    pub static MONO_NSEC: AtomicI64 = AtomicI64::new(0);

    /// Nanoseconds by which the realtime clock advances at each read of it (0 = frozen): code that
    /// reads the clock twice for one decision sees two different instants, as on a real machine.
    pub static REAL_TICK_NS: AtomicI64 = AtomicI64::new(0);

    /// Time the machine has spent suspended: CLOCK_BOOTTIME = monotonic + this.
    pub static BOOT_OFFSET_NS: AtomicI64 = AtomicI64::new(0);
    /// CLOCK_REALTIME_COARSE lags CLOCK_REALTIME by up to a kernel tick: it reads this much earlier.
    pub static REAL_COARSE_LAG_NS: AtomicI64 = AtomicI64::new(0);

    pub fn set_boot_offset(ns: i64) {
        BOOT_OFFSET_NS.store(ns, Ordering::SeqCst);
    }

    pub fn set_real_coarse_lag(ns: i64) {
        REAL_COARSE_LAG_NS.store(ns, Ordering::SeqCst);
    }

    fn shifted(sec: i64, nsec: i64, by: i64) -> (i64, i64) {
        let t = nsec + by;
        (sec + t.div_euclid(1_000_000_000), t.rem_euclid(1_000_000_000))
    }

    pub fn set_real_tick(ns: i64) {
        REAL_TICK_NS.store(ns, Ordering::SeqCst);
    }

    pub fn set(real: (i64, i64), mono: (i64, i64)) {
        REAL_SEC.store(real.0, Ordering::SeqCst);
        REAL_NSEC.store(real.1, Ordering::SeqCst);
        MONO_SEC.store(mono.0, Ordering::SeqCst);
        MONO_NSEC.store(mono.1, Ordering::SeqCst);
    }

    pub fn install() {
        super::install(Box::new(|clk| {
            let cur = ORDER.load(Ordering::SeqCst);
            if cur >> 60 == 0 {
                ORDER.store((cur << 4) | ((clk as u64 + 1) & 0xf), Ordering::SeqCst);
            }
            if clk == libc::CLOCK_REALTIME || clk == libc::CLOCK_REALTIME_COARSE {
                let (s, n) = (REAL_SEC.load(Ordering::SeqCst), REAL_NSEC.load(Ordering::SeqCst));
                let tick = REAL_TICK_NS.load(Ordering::SeqCst);
                if tick != 0 {
                    let t = n + tick;
                    REAL_SEC.store(s + t.div_euclid(1_000_000_000), Ordering::SeqCst);
                    REAL_NSEC.store(t.rem_euclid(1_000_000_000), Ordering::SeqCst);
                }
                if clk == libc::CLOCK_REALTIME_COARSE {
                    shifted(s, n, -REAL_COARSE_LAG_NS.load(Ordering::SeqCst))
                } else {
                    (s, n)
                }
            } else if clk == libc::CLOCK_BOOTTIME || clk == libc::CLOCK_BOOTTIME_ALARM {
                shifted(MONO_SEC.load(Ordering::SeqCst), MONO_NSEC.load(Ordering::SeqCst), BOOT_OFFSET_NS.load(Ordering::SeqCst))
            } else {
                (MONO_SEC.load(Ordering::SeqCst), MONO_NSEC.load(Ordering::SeqCst))
            }
        }));
    }
}

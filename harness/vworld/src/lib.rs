//! Shared plumbing of the verification harness:
//! - `clock`: a process-wide `clock_gettime` interposer (virtual time, read log),
//! - `Rng`: a small deterministic PRNG (splitmix64 / xoshiro256**),
//! - helpers to emit result files.

pub mod clock;
pub mod meter;
pub mod rng;

pub use rng::Rng;
pub use serde_json;
pub use serde_json::json;

use std::io::Write;

/// Write a JSON value to `path` atomically enough for our purpose.
pub fn write_json(path: &str, value: &serde_json::Value) {
    let tmp = format!("{}.tmp", path);
    {
        let mut f = std::fs::File::create(&tmp).expect("create result file");
        f.write_all(serde_json::to_string(value).unwrap().as_bytes())
            .expect("write result file");
    }
    std::fs::rename(&tmp, path).expect("rename result file");
}

/// Parse `--key value` style arguments into a map; bare words are collected under "_".
pub fn parse_args() -> std::collections::HashMap<String, String> {
    let mut map = std::collections::HashMap::new();
    let args: Vec<String> = std::env::args().skip(1).collect();
    let mut i = 0;
    let mut bare = Vec::new();
    while i < args.len() {
        if let Some(key) = args[i].strip_prefix("--") {
            if i + 1 < args.len() {
                map.insert(key.to_string(), args[i + 1].clone());
                i += 2;
            } else {
                map.insert(key.to_string(), String::new());
                i += 1;
            }
        } else {
            bare.push(args[i].clone());
            i += 1;
        }
    }
    map.insert("_".to_string(), bare.join(" "));
    map
}

pub fn arg_u64(map: &std::collections::HashMap<String, String>, key: &str, default: u64) -> u64 {
    map.get(key)
        .map(|v| v.parse::<u64>().unwrap_or_else(|_| panic!("bad --{} {}", key, v)))
        .unwrap_or(default)
}

pub fn arg_str(map: &std::collections::HashMap<String, String>, key: &str, default: &str) -> String {
    map.get(key).cloned().unwrap_or_else(|| default.to_string())
}

/// `ShmWriter::new()` never closes the descriptor it maps the segment from. A daemon creates one
/// writer per process, a harness process creates thousands: close the leaked descriptors (those
/// pointing at `path`, except the ones listed in `keep`) so that the harness does not run out.
pub fn close_fds_pointing_to(path: &std::path::Path, keep: &[i32]) -> usize {
    let mut closed = 0;
    let entries: Vec<i32> = match std::fs::read_dir("/proc/self/fd") {
        Ok(d) => d.filter_map(|e| e.ok()).filter_map(|e| e.file_name().to_str().and_then(|s| s.parse::<i32>().ok())).collect(),
        Err(_) => return 0,
    };
    // (the configured path may be a symbolic link: descriptors show the file it leads to)
    let canonical = std::fs::canonicalize(path).ok();
    for fd in entries {
        if fd <= 2 || keep.contains(&fd) {
            continue;
        }
        if let Ok(target) = std::fs::read_link(format!("/proc/self/fd/{}", fd)) {
            // The writer opens read-write; readers (possibly mid-open in another thread) and
            // observers open read-only and must be left alone.
            let flags = unsafe { libc::fcntl(fd, libc::F_GETFL) };
            let hit = target == path || canonical.as_deref() == Some(target.as_path()) || {
                // a file that was unlinked or renamed over since shows as "<path> (deleted)"
                let t = target.to_string_lossy();
                t.strip_suffix(" (deleted)").map(|t| std::path::Path::new(t) == path || canonical.as_deref() == Some(std::path::Path::new(t))).unwrap_or(false)
            };
            if hit && flags >= 0 && (flags & libc::O_ACCMODE) == libc::O_RDWR {
                unsafe { libc::close(fd) };
                closed += 1;
            }
        }
    }
    closed
}

/// Like `close_fds_pointing_to`, for every read-write descriptor whose target (even deleted or
/// renamed since) lies under `dir`.
pub fn close_rdwr_fds_under(dir: &std::path::Path) -> usize {
    let mut closed = 0;
    let entries: Vec<i32> = match std::fs::read_dir("/proc/self/fd") {
        Ok(d) => d.filter_map(|e| e.ok()).filter_map(|e| e.file_name().to_str().and_then(|s| s.parse::<i32>().ok())).collect(),
        Err(_) => return 0,
    };
    for fd in entries {
        if fd <= 2 {
            continue;
        }
        if let Ok(target) = std::fs::read_link(format!("/proc/self/fd/{}", fd)) {
            let flags = unsafe { libc::fcntl(fd, libc::F_GETFL) };
            if target.starts_with(dir) && flags >= 0 && (flags & libc::O_ACCMODE) == libc::O_RDWR {
                unsafe { libc::close(fd) };
                closed += 1;
            }
        }
    }
    closed
}

//! One `ClockBoundClient` shared by several threads through an `Arc`, no lock: only compiles if the
//! client type is `Sync` and `now()` can be called through a shared reference.

use std::sync::atomic::{AtomicBool, AtomicU64, Ordering};
use std::sync::Arc;

use clock_bound_client::{ClockBoundClient, ClockStatus};
use clock_bound_shm::{ClockErrorBound, ShmWrite, ShmWriter};
use vworld::{arg_str, arg_u64, clock, json, parse_args};

fn main() {
    let args = parse_args();
    let seconds = arg_u64(&args, "seconds", 3);
    let dir = std::path::PathBuf::from(format!("/dev/shm/cbverif-shared.{}", std::process::id()));
    std::fs::create_dir_all(&dir).unwrap();
    let path = dir.join("shm");
    clock::fixed::install();
    clock::fixed::set((1_700_000_000, 0), (5000, 0));
    let rec_a = ClockErrorBound::new(libc::timespec { tv_sec: 4999, tv_nsec: 0 }, libc::timespec { tv_sec: 5999, tv_nsec: 0 }, 1_000_000, 0, 0, clock_bound_shm::ClockStatus::Synchronized);
    let rec_b = ClockErrorBound::new(libc::timespec { tv_sec: 4996, tv_nsec: 0 }, libc::timespec { tv_sec: 5996, tv_nsec: 0 }, 5_000_000_000, 100_000, 0, clock_bound_shm::ClockStatus::Synchronized);
    // valid half-widths: A -> 1_000_000 ; B -> 5_000_000_000 + 4 s x 100_000 ppb = 5_000_400_000
    let valid = [1_000_000i128, 5_000_400_000];
    let stop = Arc::new(AtomicBool::new(false));
    let calls = Arc::new(AtomicU64::new(0));
    let bad = Arc::new(std::sync::Mutex::new(Vec::<String>::new()));
    let p2 = path.clone();
    let s2 = stop.clone();
    let w = std::thread::spawn(move || {
        let mut writer = ShmWriter::new(&p2).expect("ShmWriter::new");
        let mut k = 0u64;
        while !s2.load(Ordering::Relaxed) {
            writer.write(if k % 2 == 0 { &rec_a } else { &rec_b });
            k += 1;
        }
        k
    });
    while std::fs::metadata(&path).map(|m| m.len() < 72).unwrap_or(true) {
        std::thread::yield_now();
    }
    std::thread::sleep(std::time::Duration::from_millis(20));
    let client = Arc::new(ClockBoundClient::new_with_path(path.to_str().unwrap()).expect("client"));
    let mut hs = Vec::new();
    for t in 0..4 {
        let (client, stop, calls, bad) = (client.clone(), stop.clone(), calls.clone(), bad.clone());
        hs.push(std::thread::spawn(move || {
            let mut n = 0u64;
            while !stop.load(Ordering::Relaxed) {
                // THE LINE THE UNCHANGED TREE DOES NOT ALLOW: a shared reference, no lock
                if let Ok(r) = client.now() {
                    let e = r.earliest.tv_sec() as i128 * 1_000_000_000 + r.earliest.tv_nsec() as i128;
                    let l = r.latest.tv_sec() as i128 * 1_000_000_000 + r.latest.tv_nsec() as i128;
                    let h = (l - e) / 2;
                    let unknown = matches!(r.clock_status, ClockStatus::Unknown);
                    if !valid.contains(&h) && !(unknown && h == 0) {
                        let mut b = bad.lock().unwrap();
                        if b.len() < 5 {
                            b.push(format!("thread {} call {}: half-width {} ns matches neither published record (1000000 / 5000400000)", t, n, h));
                        }
                    }
                }
                n += 1;
            }
            calls.fetch_add(n, Ordering::Relaxed);
        }));
    }
    std::thread::sleep(std::time::Duration::from_secs(seconds));
    stop.store(true, Ordering::Relaxed);
    for h in hs {
        let _ = h.join();
    }
    let pubs = w.join().unwrap_or(0);
    let _ = std::fs::remove_dir_all(&dir);
    let v = json!({"calls": calls.load(Ordering::Relaxed), "publications": pubs, "violations": bad.lock().unwrap().clone()});
    let out = arg_str(&args, "out", "");
    if out.is_empty() {
        println!("{}", v);
    } else {
        vworld::write_json(&out, &v);
    }
}

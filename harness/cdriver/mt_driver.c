/*
 * Multi-threaded / multi-process C client of libclockbound, written against
 * clock-bound-ffi/include/clockbound.h and docs/PROTOCOL.md only.
 *
 * The header says a context is not thread safe and that every thread opens its own; it does not
 * say a context is tied to the thread (or process) that opened it. Scenarios:
 *
 *   handover <dir>        a context opened by main() is used by other threads, one at a time, each
 *                         after a new publication: every call must return the latest record (C03)
 *   threads <dir> <sec>   threads with their own contexts, all at once: two on a segment that a writer
 *                         thread updates continuously with keyed records (every answer must stem from
 *                         one record: C02), one cycling open/now/close over two segments (C16), one on
 *                         a segment whose drift is malformed and one on a segment stamped ahead of the
 *                         clock (each must see its own error kind, every time: C14)
 *   fork <dir>            a worker thread calls clockbound_now() in a loop while main() forks children
 *                         that each make one call on the inherited context: every child returns (C18)
 *   nullerr <dir>         clockbound_open(path, NULL) on a valid and on a missing segment (C17: the
 *                         header makes err optional)
 *
 * Output: lines "MT <scenario> key=value ...", and "VIOLATION-MT <property> <sig> <text>" per problem.
 */
#define _GNU_SOURCE
#include <errno.h>
#include <fcntl.h>
#include <pthread.h>
#include <signal.h>
#include <stdint.h>
#include <stdio.h>
#include <stdlib.h>
#include <string.h>
#include <sys/mman.h>
#include <sys/stat.h>
#include <sys/syscall.h>
#include <sys/wait.h>
#include <time.h>
#include <unistd.h>

#include "clockbound.h"

/* Frozen virtual clocks: realtime 1700000000.0, every other clock 100.0 s. */
int clock_gettime(clockid_t clk, struct timespec *ts)
{
	if (clk == CLOCK_REALTIME || clk == CLOCK_REALTIME_COARSE) {
		ts->tv_sec = 1700000000;
		ts->tv_nsec = 0;
	} else {
		ts->tv_sec = 100;
		ts->tv_nsec = 0;
	}
	return 0;
}

static double real_seconds(void)
{
	struct timespec ts;
	syscall(SYS_clock_gettime, CLOCK_MONOTONIC, &ts);
	return ts.tv_sec + ts.tv_nsec / 1e9;
}

static int violations = 0;
static pthread_mutex_t out_lock = PTHREAD_MUTEX_INITIALIZER;

#define VIOLATION(prop, sig, ...)                                                     \
	do {                                                                          \
		pthread_mutex_lock(&out_lock);                                        \
		if (violations++ < 12) {                                              \
			printf("VIOLATION-MT %s %s ", prop, sig);                     \
			printf(__VA_ARGS__);                                          \
			printf("\n");                                                 \
			fflush(stdout);                                               \
		}                                                                     \
		pthread_mutex_unlock(&out_lock);                                      \
	} while (0)

/* ------------------------------------------------------------------ segments (docs/PROTOCOL.md) */
#define BASE_BOUND 1000000
#define KEYS 1000

struct segment {
	char path[512];
	unsigned char *map;
};

static void fill_record(unsigned char *b, int64_t as_of_s, int64_t void_s, int64_t bound, uint32_t drift, int32_t status)
{
	int64_t zero = 0;
	uint32_t reserved = 0, pad = 0;
	memcpy(b + 16, &as_of_s, 8);
	memcpy(b + 24, &zero, 8);
	memcpy(b + 32, &void_s, 8);
	memcpy(b + 40, &zero, 8);
	memcpy(b + 48, &bound, 8);
	memcpy(b + 56, &drift, 4);
	memcpy(b + 60, &reserved, 4);
	memcpy(b + 64, &status, 4);
	memcpy(b + 68, &pad, 4);
}

static int create_segment(struct segment *s, const char *dir, const char *name, int64_t as_of_s, int64_t bound, uint32_t drift, int32_t status)
{
	unsigned char b[72];
	memset(b, 0, sizeof b);
	uint32_t magic0 = 0x414D5A4E, magic1 = 0x43420200, size = 72;
	uint16_t version = 1, generation = 2;
	memcpy(b + 0, &magic0, 4);
	memcpy(b + 4, &magic1, 4);
	memcpy(b + 8, &size, 4);
	memcpy(b + 12, &version, 2);
	memcpy(b + 14, &generation, 2);
	fill_record(b, as_of_s, 5000, bound, drift, status);
	snprintf(s->path, sizeof s->path, "%s/%s", dir, name);
	int fd = open(s->path, O_RDWR | O_CREAT | O_TRUNC, 0644);
	if (fd < 0 || write(fd, b, 72) != 72)
		return -1;
	s->map = mmap(NULL, 72, PROT_READ | PROT_WRITE, MAP_SHARED, fd, 0);
	close(fd);
	return s->map == MAP_FAILED ? -1 : 0;
}

/* One publication by the documented protocol: generation odd, record, generation even (never 0). */
static void publish_key(struct segment *s, int k)
{
	uint16_t *gen = (uint16_t *)(s->map + 14);
	uint16_t g = __atomic_load_n(gen, __ATOMIC_RELAXED);
	uint16_t odd = (g & 1) ? g : (uint16_t)(g + 1);
	__atomic_store_n(gen, odd, __ATOMIC_RELAXED);
	__atomic_thread_fence(__ATOMIC_RELEASE);
	volatile int64_t *w = (volatile int64_t *)(s->map + 16);
	w[0] = 100;
	w[1] = 0;
	w[2] = 5000;
	w[3] = 0;
	w[4] = BASE_BOUND + 1000 * (int64_t)k;
	volatile uint32_t *u = (volatile uint32_t *)(s->map + 56);
	u[0] = 0;
	u[1] = 0;
	*(volatile int32_t *)(s->map + 64) = k % 3;
	uint16_t even = (uint16_t)(odd + 1);
	if (even == 0)
		even = 2;
	__atomic_store_n(gen, even, __ATOMIC_RELEASE);
}

/* The record a context holds before its first successful read: all zero, status unknown. */
static int is_initial(const clockbound_now_result *r)
{
	return r->clock_status == 0 && r->earliest.tv_sec == 1700000000 && r->earliest.tv_nsec == 0 && r->latest.tv_sec == 1700000000 && r->latest.tv_nsec == 0;
}

/* Which key does an answer stem from? -1: from no single record. */
static int key_of(const clockbound_now_result *r)
{
	int64_t e = (int64_t)r->earliest.tv_sec * 1000000000 + r->earliest.tv_nsec;
	int64_t l = (int64_t)r->latest.tv_sec * 1000000000 + r->latest.tv_nsec;
	int64_t mid = 1700000000LL * 1000000000;
	if (mid - e != l - mid)
		return -1;
	int64_t h = l - mid;
	if (h < BASE_BOUND || (h - BASE_BOUND) % 1000)
		return -1;
	int64_t k = (h - BASE_BOUND) / 1000;
	if (k >= KEYS || (int)r->clock_status != (int)(k % 3))
		return -1;
	return (int)k;
}

/* ------------------------------------------------------------------ handover */
struct hand {
	clockbound_ctx *ctx;
	int expect;
	int got;
	int err_kind;
};

static void *hand_worker(void *p)
{
	struct hand *h = p;
	clockbound_now_result r;
	const clockbound_err *e = clockbound_now(h->ctx, &r);
	if (e) {
		h->got = -2;
		h->err_kind = (int)e->kind;
	} else {
		h->got = key_of(&r);
	}
	return NULL;
}

static int scenario_handover(const char *dir)
{
	int calls = 0;
	for (int variant = 0; variant < 2; variant++) {
		struct segment a;
		if (create_segment(&a, dir, variant ? "hand1" : "hand0", 100, BASE_BOUND + 1000, 0, 1))
			return 3;
		clockbound_err err;
		clockbound_ctx *ctx = clockbound_open(a.path, &err);
		if (!ctx) {
			printf("MT handover open-failed kind=%d\n", (int)err.kind);
			return 3;
		}
		if (variant == 1) {
			clockbound_now_result r;
			clockbound_now(ctx, &r);
		}
		for (int k = 2; k < 22; k++) {
			publish_key(&a, k);
			struct hand h = { ctx, k, -3, 0 };
			pthread_t t;
			pthread_create(&t, NULL, hand_worker, &h);
			pthread_join(t, NULL);
			calls++;
			if (h.got != k)
				VIOLATION("C03", "context-used-by-another-thread-does-not-catch-up",
					  "context opened by main() (%s), publication %d complete and the writer idle: a call from another thread returned %s%d (error kind %d)",
					  variant ? "which made one call itself" : "never used by main()", k, h.got >= 0 ? "publication " : "code ", h.got, h.err_kind);
		}
		clockbound_close(ctx);
	}
	printf("MT handover calls=%d\n", calls);
	return 0;
}

/* ------------------------------------------------------------------ threads */
static volatile int stop_all = 0;
static struct segment seg_a, seg_b, seg_m, seg_c;
static long n_keyed = 0, n_cycle = 0, n_mal = 0, n_caus = 0, n_pub = 0;

static void *writer_thread(void *p)
{
	(void)p;
	int k = 0;
	while (!stop_all) {
		publish_key(&seg_a, k);
		k = (k + 1) % KEYS;
		__atomic_add_fetch(&n_pub, 1, __ATOMIC_RELAXED);
		if (k % 64 == 0)
			sched_yield();
	}
	return NULL;
}

static void *keyed_thread(void *p)
{
	(void)p;
	clockbound_err err;
	clockbound_ctx *ctx = clockbound_open(seg_a.path, &err);
	if (!ctx) {
		VIOLATION("C02", "open-failed", "own context on the keyed segment: kind %d errno %d", (int)err.kind, err.sys_errno);
		return NULL;
	}
	long n = 0;
	int seen = 0;
	while (!stop_all) {
		clockbound_now_result r;
		const clockbound_err *e = clockbound_now(ctx, &r);
		n++;
		if (e) {
			/* legitimate only when the retry budget ran out under continuous updates */
			continue;
		}
		if (!seen && is_initial(&r))
			continue; /* every call so far met an update in flight */
		seen = 1;
		if (key_of(&r) < 0)
			VIOLATION("C02", "answer-from-no-single-record",
				  "thread with its own context, writer updating continuously: earliest %ld.%09ld latest %ld.%09ld status %d matches no published record (bound = 1000000 + 1000 k, status = k mod 3)",
				  (long)r.earliest.tv_sec, (long)r.earliest.tv_nsec, (long)r.latest.tv_sec, (long)r.latest.tv_nsec, (int)r.clock_status);
	}
	clockbound_close(ctx);
	__atomic_add_fetch(&n_keyed, n, __ATOMIC_RELAXED);
	return NULL;
}

static void *cycle_thread(void *p)
{
	(void)p;
	long n = 0;
	while (!stop_all) {
		int on_b = (int)(n & 1);
		clockbound_err err;
		clockbound_ctx *ctx = clockbound_open(on_b ? seg_b.path : seg_a.path, &err);
		if (!ctx) {
			VIOLATION("C16", "open-of-valid-segment-failed", "open/now/close cycle %ld on a valid, published segment: kind %d errno %d", n, (int)err.kind, err.sys_errno);
			n++;
			continue;
		}
		clockbound_now_result r;
		const clockbound_err *e = clockbound_now(ctx, &r);
		if (!e) {
			int64_t h = ((int64_t)r.latest.tv_sec * 1000000000 + r.latest.tv_nsec) - 1700000000LL * 1000000000;
			if (on_b && (h != 7000000 || r.clock_status != 1))
				VIOLATION("C16", "read-back-another-segments-record", "context opened on the static segment (bound 7000000, status 1) returned half-width %ld status %d", (long)h, (int)r.clock_status);
			if (!on_b && key_of(&r) < 0 && !is_initial(&r))
				VIOLATION("C16", "read-back-another-segments-record", "context opened on the keyed segment returned half-width %ld status %d", (long)h, (int)r.clock_status);
		}
		clockbound_close(ctx);
		n++;
	}
	__atomic_add_fetch(&n_cycle, n, __ATOMIC_RELAXED);
	return NULL;
}

struct errspec {
	struct segment *seg;
	int want;
	const char *name;
	long *counter;
};

static void *error_thread(void *p)
{
	struct errspec *s = p;
	clockbound_err err;
	clockbound_ctx *ctx = clockbound_open(s->seg->path, &err);
	if (!ctx) {
		VIOLATION("C14", "open-failed", "own context on the %s segment: kind %d", s->name, (int)err.kind);
		return NULL;
	}
	long n = 0;
	while (!stop_all) {
		clockbound_now_result r;
		const clockbound_err *e = clockbound_now(ctx, &r);
		n++;
		int kind = e ? (int)e->kind : -1;
		if (kind != s->want)
			VIOLATION("C14", "wrong-error-kind", "thread with its own context on the %s segment, call %ld: error kind %d, expected %d (another thread fails with another kind at the same time)", s->name, n, kind, s->want);
	}
	clockbound_close(ctx);
	__atomic_add_fetch(s->counter, n, __ATOMIC_RELAXED);
	return NULL;
}

static int scenario_threads(const char *dir, double seconds)
{
	if (create_segment(&seg_a, dir, "keyed", 100, BASE_BOUND, 0, 0) || create_segment(&seg_b, dir, "static", 100, 7000000, 0, 1) ||
	    create_segment(&seg_m, dir, "malformed-drift", 100, 5, 2000000000u, 1) || create_segment(&seg_c, dir, "ahead-of-clock", 1100, 5, 0, 1))
		return 3;
	struct errspec em = { &seg_m, (int)CLOCKBOUND_ERR_SEGMENT_MALFORMED, "malformed-drift", &n_mal };
	struct errspec ec = { &seg_c, (int)CLOCKBOUND_ERR_CAUSALITY_BREACH, "ahead-of-clock", &n_caus };
	pthread_t t[9];
	pthread_create(&t[0], NULL, writer_thread, NULL);
	pthread_create(&t[1], NULL, keyed_thread, NULL);
	pthread_create(&t[2], NULL, keyed_thread, NULL);
	pthread_create(&t[3], NULL, cycle_thread, NULL);
	pthread_create(&t[4], NULL, error_thread, &em);
	pthread_create(&t[5], NULL, error_thread, &ec);
	/* several threads opening and closing at the same time: what one releases another maps */
	pthread_create(&t[6], NULL, cycle_thread, NULL);
	pthread_create(&t[7], NULL, cycle_thread, NULL);
	pthread_create(&t[8], NULL, cycle_thread, NULL);
	double t0 = real_seconds();
	while (real_seconds() - t0 < seconds && violations < 12)
		usleep(20000);
	stop_all = 1;
	for (int i = 0; i < 9; i++)
		pthread_join(t[i], NULL);
	printf("MT threads publications=%ld keyed_calls=%ld open_now_close_cycles=%ld malformed_calls=%ld causality_calls=%ld\n", n_pub, n_keyed, n_cycle, n_mal, n_caus);
	return 0;
}

/* ------------------------------------------------------------------ fork */
static clockbound_ctx *fork_ctx;

static void *fork_worker(void *p)
{
	(void)p;
	while (!stop_all) {
		clockbound_now_result r;
		clockbound_now(fork_ctx, &r);
	}
	return NULL;
}

static int scenario_fork(const char *dir)
{
	if (create_segment(&seg_a, dir, "fork-keyed", 100, BASE_BOUND, 0, 0))
		return 3;
	clockbound_err err;
	fork_ctx = clockbound_open(seg_a.path, &err);
	if (!fork_ctx)
		return 3;
	pthread_t w, c;
	pthread_create(&w, NULL, writer_thread, NULL);
	pthread_create(&c, NULL, fork_worker, NULL);
	int children = 0, returned = 0, blocked = 0, undecided = 0;
	for (int i = 0; i < 150 && blocked < 3; i++) {
		usleep(500 + (i * 37) % 3000);
		pid_t pid = fork();
		if (pid == 0) {
			clockbound_now_result r;
			clockbound_now(fork_ctx, &r);
			_exit(0);
		}
		if (pid < 0)
			continue;
		children++;
		int status = 0, done = 0, asleep = 0;
		char last[64] = "";
		for (int s = 0; s < 400; s++) {
			if (waitpid(pid, &status, WNOHANG) == pid) {
				done = 1;
				break;
			}
			usleep(5000);
			if (s >= 40) {
				/* not back after 200 ms: what is it doing? */
				char path[64], buf[256];
				snprintf(path, sizeof path, "/proc/%d/syscall", (int)pid);
				FILE *f = fopen(path, "r");
				buf[0] = 0;
				if (f) {
					if (!fgets(buf, sizeof buf, f))
						buf[0] = 0;
					fclose(f);
				}
				long nr = -1;
				if (sscanf(buf, "%ld", &nr) == 1 && nr == SYS_futex) {
					asleep++;
					snprintf(last, sizeof last, "futex");
				} else {
					asleep = 0;
				}
				if (asleep >= 100)
					break;
			}
		}
		if (done) {
			returned++;
			if (WIFSIGNALED(status))
				VIOLATION("C18", "child-crashed", "forked child %d was killed by signal %d in clockbound_now() on the inherited context", children, WTERMSIG(status));
		} else if (asleep >= 100) {
			blocked++;
			VIOLATION("C18", "forked-child-blocked-for-ever",
				  "child %d forked while another thread was inside clockbound_now() on the same context: its own call did not return, the process sat in %s() for 100 consecutive samples over 0.5 s with nobody left to wake it",
				  children, last);
			kill(pid, SIGKILL);
			waitpid(pid, &status, 0);
		} else {
			undecided++;
			kill(pid, SIGKILL);
			waitpid(pid, &status, 0);
		}
	}
	stop_all = 1;
	pthread_join(w, NULL);
	pthread_join(c, NULL);
	printf("MT fork children=%d returned=%d blocked=%d undecided=%d\n", children, returned, blocked, undecided);
	return 0;
}

/* ------------------------------------------------------------------ NULL error argument */
static int scenario_nullerr(const char *dir)
{
	struct segment v;
	if (create_segment(&v, dir, "valid", 100, BASE_BOUND + 5000, 0, 2))
		return 3;
	char missing[600];
	snprintf(missing, sizeof missing, "%s/missing", dir);
	const char *paths[2] = { v.path, missing };
	for (int i = 0; i < 2; i++) {
		pid_t pid = fork();
		if (pid == 0) {
			clockbound_ctx *ctx = clockbound_open(paths[i], NULL);
			if (i == 0) {
				if (!ctx)
					_exit(10);
				clockbound_now_result r;
				const clockbound_err *e = clockbound_now(ctx, &r);
				_exit(e ? 11 : (key_of(&r) == 5 ? 0 : 12));
			}
			_exit(ctx ? 13 : 0);
		}
		int status = 0;
		waitpid(pid, &status, 0);
		if (WIFSIGNALED(status))
			VIOLATION("C17", "null-err-argument-crashes", "clockbound_open(%s segment, NULL) was killed by signal %d; clockbound.h: \"If err is non-null, fills `*err`\"", i ? "missing" : "valid", WTERMSIG(status));
		else if (WEXITSTATUS(status) != 0)
			VIOLATION("C17", "null-err-argument-changes-outcome", "clockbound_open(%s segment, NULL): child exit code %d", i ? "missing" : "valid", WEXITSTATUS(status));
		printf("MT nullerr case=%s status=%d\n", i ? "missing" : "valid", status);
	}
	return 0;
}

int main(int argc, char **argv)
{
	setvbuf(stdout, NULL, _IOLBF, 0);
	if (argc >= 3 && strcmp(argv[1], "handover") == 0)
		return scenario_handover(argv[2]);
	if (argc >= 4 && strcmp(argv[1], "threads") == 0)
		return scenario_threads(argv[2], atof(argv[3]));
	if (argc >= 3 && strcmp(argv[1], "fork") == 0)
		return scenario_fork(argv[2]);
	if (argc >= 3 && strcmp(argv[1], "nullerr") == 0)
		return scenario_nullerr(argv[2]);
	fprintf(stderr, "usage: mt_driver handover|fork|nullerr <dir> | threads <dir> <seconds>\n");
	return 2;
}

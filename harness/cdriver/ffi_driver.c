/*
 * C driver for libclockbound, written against clock-bound-ffi/include/clockbound.h only.
 *
 *   ffi_driver vectors <vector-file> <shm-path>   one answer line per vector line
 *   ffi_driver open <path>                        outcome of clockbound_open()
 *   ffi_driver order <shm-path>                   order in which clockbound_now() reads the clocks
 *
 * The program defines clock_gettime() itself, so the library (linked statically or dynamically)
 * reads a clock this program owns. Segment files are laid out from docs/PROTOCOL.md by hand.
 * Canary bytes surround every structure the library writes to.
 */
#define _GNU_SOURCE
#include <errno.h>
#include <fcntl.h>
#include <stdint.h>
#include <stdio.h>
#include <stdlib.h>
#include <string.h>
#include <sys/syscall.h>
#include <time.h>
#include <unistd.h>

#include "clockbound.h"

static int virtual_on = 0;
static struct timespec v_real, v_mono;
static int read_log[64];
static int read_count = 0;

int clock_gettime(clockid_t clk, struct timespec *ts)
{
	if (virtual_on) {
		if (read_count < 64)
			read_log[read_count] = (int)clk;
		read_count++;
		if (clk == CLOCK_REALTIME || clk == CLOCK_REALTIME_COARSE)
			*ts = v_real;
		else
			*ts = v_mono;
		return 0;
	}
	return (int)syscall(SYS_clock_gettime, clk, ts);
}

#define CANARY 0xA5

struct guarded_result {
	unsigned char before[64];
	clockbound_now_result res;
	unsigned char after[64];
};

struct guarded_err {
	unsigned char before[64];
	clockbound_err err;
	unsigned char after[64];
};

static int canaries_intact(const unsigned char *p, size_t n)
{
	for (size_t i = 0; i < n; i++)
		if (p[i] != CANARY)
			return 0;
	return 1;
}

static const char *kind_name(clockbound_err_kind k)
{
	switch (k) {
	case CLOCKBOUND_ERR_NONE: return "None";
	case CLOCKBOUND_ERR_SYSCALL: return "Syscall";
	case CLOCKBOUND_ERR_SEGMENT_NOT_INITIALIZED: return "SegmentNotInitialized";
	case CLOCKBOUND_ERR_SEGMENT_MALFORMED: return "SegmentMalformed";
	case CLOCKBOUND_ERR_CAUSALITY_BREACH: return "CausalityBreach";
	}
	return "InvalidKind";
}

static void print_err(const clockbound_err *e)
{
	printf("ERR %s %d %s\n", kind_name(e->kind), e->sys_errno, (e->detail && e->detail[0]) ? e->detail : "-");
}

/* docs/PROTOCOL.md, native endian: magic (8) size (4) version (2) generation (2) as-of (8,8)
 * void-after (8,8) bound (8) max drift (4) reserved (4) clock status (4) padding (4) = 72 bytes. */
static void write_segment(int fd, uint16_t generation, const int64_t f[11])
{
	unsigned char b[72];
	memset(b, 0, sizeof b);
	uint32_t magic0 = 0x414D5A4E, magic1 = 0x43420200, size = 72;
	uint16_t version = 1;
	memcpy(b + 0, &magic0, 4);
	memcpy(b + 4, &magic1, 4);
	memcpy(b + 8, &size, 4);
	memcpy(b + 12, &version, 2);
	memcpy(b + 14, &generation, 2);
	int64_t as_of_s = f[0], as_of_n = f[1], va_s = f[2], va_n = f[3], bound = f[4];
	uint32_t drift = (uint32_t)f[5], reserved = 0;
	int32_t status = (int32_t)f[6];
	memcpy(b + 16, &as_of_s, 8);
	memcpy(b + 24, &as_of_n, 8);
	memcpy(b + 32, &va_s, 8);
	memcpy(b + 40, &va_n, 8);
	memcpy(b + 48, &bound, 8);
	memcpy(b + 56, &drift, 4);
	memcpy(b + 60, &reserved, 4);
	memcpy(b + 64, &status, 4);
	if (pwrite(fd, b, sizeof b, 0) != (ssize_t)sizeof b) {
		perror("pwrite");
		exit(3);
	}
}

static int mode_vectors(const char *vec_path, const char *shm_path)
{
	FILE *vf = fopen(vec_path, "r");
	if (!vf) {
		perror("vector file");
		return 3;
	}
	int fd = open(shm_path, O_RDWR | O_CREAT | O_TRUNC, 0644);
	if (fd < 0) {
		perror("shm file");
		return 3;
	}
	int64_t zero[11] = {0};
	uint16_t generation = 2;
	write_segment(fd, generation, zero);

	struct guarded_err gerr;
	memset(&gerr, CANARY, sizeof gerr);
	clockbound_ctx *ctx = clockbound_open(shm_path, &gerr.err);
	if (!ctx) {
		print_err(&gerr.err);
		return 3;
	}
	char line[512];
	long n = 0;
	while (fgets(line, sizeof line, vf)) {
		int64_t f[11];
		if (sscanf(line, "%ld %ld %ld %ld %ld %ld %ld %ld %ld %ld %ld", &f[0], &f[1], &f[2], &f[3], &f[4], &f[5], &f[6], &f[7], &f[8], &f[9], &f[10]) != 11)
			continue;
		generation = (uint16_t)(generation + 2);
		if (generation == 0)
			generation = 2;
		write_segment(fd, generation, f);
		v_real.tv_sec = f[7];
		v_real.tv_nsec = f[8];
		v_mono.tv_sec = f[9];
		v_mono.tv_nsec = f[10];
		struct guarded_result g;
		memset(&g, CANARY, sizeof g);
		virtual_on = 1;
		read_count = 0;
		const clockbound_err *e = clockbound_now(ctx, &g.res);
		virtual_on = 0;
		if (!canaries_intact(g.before, sizeof g.before) || !canaries_intact(g.after, sizeof g.after)) {
			printf("CANARY result structure overrun at vector %ld\n", n);
			return 4;
		}
		if (e) {
			print_err(e);
		} else {
			printf("OK %ld %ld %ld %ld %d\n", (long)g.res.earliest.tv_sec, (long)g.res.earliest.tv_nsec, (long)g.res.latest.tv_sec, (long)g.res.latest.tv_nsec, (int)g.res.clock_status);
			int last_real = -1, last_mono = -1;
			for (int i = 0; i < read_count && i < 64; i++) {
				if (read_log[i] == CLOCK_REALTIME)
					last_real = i;
				else
					last_mono = i;
			}
			if (last_real < 0 || last_mono < last_real) {
				printf("CLOCKORDER %d reads, first clock id %d: the monotonic clock was not read after CLOCK_REALTIME\n", read_count, read_log[0]);
			}
		}
		n++;
	}
	const clockbound_err *ce = clockbound_close(ctx);
	if (ce)
		print_err(ce);
	close(fd);
	fclose(vf);
	return 0;
}

static int mode_open(const char *path)
{
	struct guarded_err gerr;
	memset(&gerr, CANARY, sizeof gerr);
	clockbound_ctx *ctx = clockbound_open(path, &gerr.err);
	if (!canaries_intact(gerr.before, sizeof gerr.before) || !canaries_intact(gerr.after, sizeof gerr.after)) {
		printf("CANARY error structure overrun\n");
		return 4;
	}
	if (!ctx) {
		print_err(&gerr.err);
		return 0;
	}
	/* A context was returned: the error structure must have been left alone. */
	if (!canaries_intact((unsigned char *)&gerr.err, sizeof gerr.err))
		printf("NOTE error structure written on success\n");
	printf("OPENED\n");
	clockbound_close(ctx);
	return 0;
}

static void open_outcome(const char *path, char *buf, size_t n)
{
	clockbound_err err;
	memset(&err, 0, sizeof err);
	clockbound_ctx *ctx = clockbound_open(path, &err);
	if (ctx) {
		snprintf(buf, n, "OPENED");
		clockbound_close(ctx);
	} else {
		snprintf(buf, n, "ERR_%s_%d_%s", kind_name(err.kind), err.sys_errno, (err.detail && err.detail[0]) ? err.detail : "-");
		for (char *c = buf; *c; c++)
			if (*c == ' ')
				*c = '_';
	}
}

/* The same path opened n times in one process (each context closed again): the outcome must not
 * change, and a valid segment must still open afterwards. */
static int mode_openmany(const char *path, const char *valid, long n)
{
	char first[512], last[512], v[512];
	long changed_at = 0;
	for (long k = 0; k < n; k++) {
		open_outcome(path, last, sizeof last);
		if (k == 0)
			strcpy(first, last);
		else if (strcmp(first, last) != 0) {
			changed_at = k;
			break;
		}
	}
	open_outcome(valid, v, sizeof v);
	printf("%s | first=%s | last=%s | changed_at=%ld | valid=%s\n", path, first, last, changed_at, v);
	return 0;
}

static int mode_openlist(const char *list_path)
{
	FILE *lf = fopen(list_path, "r");
	if (!lf) {
		perror("list file");
		return 3;
	}
	char line[4096];
	while (fgets(line, sizeof line, lf)) {
		size_t n = strlen(line);
		while (n && (line[n - 1] == '\n' || line[n - 1] == '\r'))
			line[--n] = 0;
		if (!n)
			continue;
		int rc = mode_open(line);
		if (rc)
			return rc;
		fflush(stdout);
	}
	fclose(lf);
	return 0;
}

/* Stateful script: the same sequence of segment states, opens and calls is replayed through the Rust
 * client by clientsim; outputs must be identical line for line.
 *   W g f0..f6   write the whole segment with generation g and the 7 record fields
 *   G g          set the generation only        V v   set the version only
 *   O            (re)open the client            C     close it
 *   N rs rn ms mn   clockbound_now() at these virtual readings */
static int mode_script(const char *script_path, const char *shm_path)
{
	FILE *sf = fopen(script_path, "r");
	if (!sf) {
		perror("script");
		return 3;
	}
	int fd = open(shm_path, O_RDWR | O_CREAT | O_TRUNC, 0644);
	if (fd < 0) {
		perror("shm file");
		return 3;
	}
	clockbound_ctx *ctx = NULL;
	char line[512];
	while (fgets(line, sizeof line, sf)) {
		if (line[0] == 'W') {
			long g;
			int64_t f[11] = {0};
			if (sscanf(line + 1, "%ld %ld %ld %ld %ld %ld %ld %ld", &g, &f[0], &f[1], &f[2], &f[3], &f[4], &f[5], &f[6]) != 8)
				continue;
			write_segment(fd, (uint16_t)g, f);
		} else if (line[0] == 'G') {
			uint16_t g = (uint16_t)atol(line + 1);
			if (pwrite(fd, &g, 2, 14) != 2)
				return 3;
		} else if (line[0] == 'V') {
			uint16_t v = (uint16_t)atol(line + 1);
			if (pwrite(fd, &v, 2, 12) != 2)
				return 3;
		} else if (line[0] == 'R') {
			/* the segment file is removed and created anew: header with this version and generation, zero body */
			long v, g;
			if (sscanf(line + 1, "%ld %ld", &v, &g) != 2)
				continue;
			close(fd);
			unlink(shm_path);
			fd = open(shm_path, O_RDWR | O_CREAT | O_TRUNC, 0644);
			if (fd < 0)
				return 3;
			unsigned char b[72];
			memset(b, 0, sizeof b);
			uint32_t m0 = 0x414D5A4Eu, m1 = 0x43420200u, sz = 72;
			uint16_t v16 = (uint16_t)v, g16 = (uint16_t)g;
			memcpy(b, &m0, 4);
			memcpy(b + 4, &m1, 4);
			memcpy(b + 8, &sz, 4);
			memcpy(b + 12, &v16, 2);
			memcpy(b + 14, &g16, 2);
			if (pwrite(fd, b, 72, 0) != 72)
				return 3;
		} else if (line[0] == 'O') {
			if (ctx)
				clockbound_close(ctx);
			struct guarded_err gerr;
			memset(&gerr, CANARY, sizeof gerr);
			ctx = clockbound_open(shm_path, &gerr.err);
			if (ctx)
				printf("OPEN OK\n");
			else {
				printf("OPEN ");
				print_err(&gerr.err);
			}
		} else if (line[0] == 'C') {
			if (ctx)
				clockbound_close(ctx);
			ctx = NULL;
		} else if (line[0] == 'N') {
			long a, b, c, d;
			if (sscanf(line + 1, "%ld %ld %ld %ld", &a, &b, &c, &d) != 4)
				continue;
			if (!ctx) {
				printf("NOCTX\n");
				continue;
			}
			v_real.tv_sec = a;
			v_real.tv_nsec = b;
			v_mono.tv_sec = c;
			v_mono.tv_nsec = d;
			struct guarded_result g;
			memset(&g, CANARY, sizeof g);
			virtual_on = 1;
			const clockbound_err *e = clockbound_now(ctx, &g.res);
			virtual_on = 0;
			if (!canaries_intact(g.before, sizeof g.before) || !canaries_intact(g.after, sizeof g.after)) {
				printf("CANARY result structure overrun\n");
				return 4;
			}
			if (e)
				print_err(e);
			else
				printf("OK %ld %ld %ld %ld %d\n", (long)g.res.earliest.tv_sec, (long)g.res.earliest.tv_nsec, (long)g.res.latest.tv_sec, (long)g.res.latest.tv_nsec, (int)g.res.clock_status);
			fflush(stdout);
		}
	}
	if (ctx)
		clockbound_close(ctx);
	close(fd);
	fclose(sf);
	return 0;
}

static int mode_order(const char *shm_path)
{
	int fd = open(shm_path, O_RDWR | O_CREAT | O_TRUNC, 0644);
	int64_t f[11] = {100, 0, 1100, 0, 5000, 1000, 1, 0, 0, 0, 0};
	write_segment(fd, 2, f);
	clockbound_err err;
	clockbound_ctx *ctx = clockbound_open(shm_path, &err);
	if (!ctx) {
		print_err(&err);
		return 3;
	}
	v_real.tv_sec = 1700000000;
	v_real.tv_nsec = 5;
	v_mono.tv_sec = 101;
	v_mono.tv_nsec = 0;
	clockbound_now_result res;
	virtual_on = 1;
	read_count = 0;
	const clockbound_err *e = clockbound_now(ctx, &res);
	virtual_on = 0;
	printf("CLOCKS");
	for (int i = 0; i < read_count && i < 64; i++)
		printf(" %d", read_log[i]);
	printf("\n");
	if (e)
		print_err(e);
	printf("SIZES now_result=%zu err=%zu\n", sizeof(clockbound_now_result), sizeof(clockbound_err));
	clockbound_close(ctx);
	close(fd);
	return 0;
}

int main(int argc, char **argv)
{
	if (argc >= 4 && strcmp(argv[1], "vectors") == 0)
		return mode_vectors(argv[2], argv[3]);
	if (argc >= 3 && strcmp(argv[1], "open") == 0)
		return mode_open(argv[2]);
	if (argc >= 4 && strcmp(argv[1], "script") == 0)
		return mode_script(argv[2], argv[3]);
	if (argc >= 5 && strcmp(argv[1], "openmany") == 0)
		return mode_openmany(argv[2], argv[3], atol(argv[4]));
	if (argc >= 3 && strcmp(argv[1], "openlist") == 0)
		return mode_openlist(argv[2]);
	if (argc >= 3 && strcmp(argv[1], "order") == 0)
		return mode_order(argv[2]);
	fprintf(stderr, "usage: ffi_driver vectors <file> <shm> | open <path> | order <shm>\n");
	return 2;
}

//! Sweeps of the client-side arithmetic (C05 C06 C14) through the real writer, a real segment
//! file, the real ShmReader/ClockBoundClient and the public now(), under a virtual clock.
//!
//! clientsim sweep --prop C05|C06|C14 --seed N --count K --shard i/n --out f [--dump file]
//! clientsim vectors --prop P --seed N --count K --dump file        (vectors for the C driver)

use std::collections::BTreeMap;
use std::io::Write;
use std::panic::{catch_unwind, AssertUnwindSafe};
use std::path::PathBuf;

use clock_bound_client::{ClockBoundClient, ClockBoundErrorKind, ClockStatus};
use clock_bound_shm::{ClockErrorBound, ShmWrite, ShmWriter};
use vworld::serde_json::Value;
use vworld::{arg_str, arg_u64, clock, json, parse_args, Rng};

const NS: i128 = 1_000_000_000;
/// Width of the causality blur, measured on the implementation at start-up (see calibrate_blur).
static BLUR_NS: std::sync::atomic::AtomicI64 = std::sync::atomic::AtomicI64::new(1000);
/// 68 years in seconds: the "physically meaningful range" of the properties.
const RANGE_S: i64 = 68 * 365 * 86400;

#[derive(Debug, Clone, Copy, PartialEq)]
pub struct Vector {
    pub as_of: (i64, i64),
    pub void_after: (i64, i64),
    pub bound: i64,
    pub drift: u32,
    pub status: i32,
    pub real: (i64, i64),
    pub mono: (i64, i64),
    /// Generator stratum, for the coverage table.
    pub kind: &'static str,
}

#[derive(Debug, Clone, PartialEq)]
pub enum Outcome {
    Ok { earliest: (i64, i64), latest: (i64, i64), status: i32 },
    Err { kind: String, errno: i32, detail: String },
    Panic(String),
}

fn ns(t: (i64, i64)) -> i128 {
    t.0 as i128 * NS + t.1 as i128
}

fn ts(n: i128) -> (i64, i64) {
    (n.div_euclid(NS) as i64, n.rem_euclid(NS) as i64)
}

fn status_of(s: i32) -> ClockStatus {
    match s {
        1 => ClockStatus::Synchronized,
        2 => ClockStatus::FreeRunning,
        _ => ClockStatus::Unknown,
    }
}

fn status_num(s: ClockStatus) -> i32 {
    match s {
        ClockStatus::Unknown => 0,
        ClockStatus::Synchronized => 1,
        ClockStatus::FreeRunning => 2,
    }
}

impl Vector {
    fn line(&self) -> String {
        format!(
            "{} {} {} {} {} {} {} {} {} {} {}",
            self.as_of.0, self.as_of.1, self.void_after.0, self.void_after.1, self.bound, self.drift, self.status, self.real.0, self.real.1, self.mono.0, self.mono.1
        )
    }

    fn to_json(&self) -> Value {
        json!({"as_of": [self.as_of.0, self.as_of.1], "void_after": [self.void_after.0, self.void_after.1], "bound_nsec": self.bound, "max_drift_ppb": self.drift,
               "status": self.status, "real": [self.real.0, self.real.1], "mono": [self.mono.0, self.mono.1], "kind": self.kind})
    }
}

impl Outcome {
    fn line(&self) -> String {
        match self {
            Outcome::Ok { earliest, latest, status } => format!("OK {} {} {} {} {}", earliest.0, earliest.1, latest.0, latest.1, status),
            Outcome::Err { kind, errno, detail } => format!("ERR {} {} {}", kind, errno, if detail.is_empty() { "-" } else { detail }),
            Outcome::Panic(m) => format!("PANIC {}", m.replace('\n', " ")),
        }
    }
}

// ------------------------------------------------------------------------------------ oracle

/// What the properties require of one answer. Returns (property, signature, text) per failure.
pub fn oracle(v: &Vector, o: &Outcome) -> Vec<(&'static str, String, String)> {
    let mut bad = Vec::new();
    let a = ns(v.as_of);
    let m = ns(v.mono);
    let r = ns(v.real);
    let va = ns(v.void_after);
    let blur = BLUR_NS.load(std::sync::atomic::Ordering::Relaxed) as i128;

    if let Outcome::Panic(msg) = o {
        bad.push(("C14", "panic".to_string(), format!("now() panicked: {}", msg)));
        return bad;
    }
    // C14: malformed drift first, then causality.
    if v.drift as i128 >= NS {
        match o {
            Outcome::Err { kind, .. } if kind == "SegmentMalformed" => {}
            other => bad.push(("C14", "drift-not-rejected".to_string(), format!("max_drift_ppb {} >= 1e9 must yield the malformed-segment error, got {:?}", v.drift, other))),
        }
        return bad;
    }
    let breach_required = m < a - blur;
    let breach_allowed = m <= a - blur;
    match o {
        Outcome::Err { kind, .. } if kind == "CausalityBreach" => {
            if !breach_allowed {
                bad.push(("C14", "spurious-causality-error".to_string(), format!("monotonic reading is {} ns after as_of minus the blur, yet the causality error was returned", m - (a - blur))));
            }
            return bad;
        }
        Outcome::Err { kind, errno, detail } => {
            bad.push(("C14", format!("unexpected-error-{}", kind), format!("unexpected error {} errno {} detail {:?}", kind, errno, detail)));
            return bad;
        }
        Outcome::Ok { .. } if breach_required => {
            bad.push(("C14", "causality-not-detected".to_string(), format!("monotonic reading precedes as_of by {} ns (> blur) and an interval was returned", a - m)));
            return bad;
        }
        _ => {}
    }
    let (e, l, st) = match o {
        Outcome::Ok { earliest, latest, status } => (*earliest, *latest, *status),
        _ => unreachable!(),
    };
    if e.1 < 0 || e.1 >= NS as i64 || l.1 < 0 || l.1 >= NS as i64 {
        bad.push(("C05", "malformed-timespec".to_string(), format!("earliest {:?} latest {:?} are not normalised timespecs", e, l)));
    }
    let (en, ln) = (ns(e), ns(l));
    // C05: order, symmetry, width.
    if en > ln {
        bad.push(("C05", "earliest-after-latest".to_string(), format!("earliest {} > latest {}", en, ln)));
    }
    if ln - r != r - en {
        bad.push(("C05", "not-centred".to_string(), format!("interval [{}, {}] is not symmetric around the realtime reading {}", en, ln, r)));
    }
    let elapsed = if m >= a { m - a } else { 0 };
    let prod = v.drift as i128 * elapsed; // exact, < 2^30 * 2^63
    let fl = prod.div_euclid(NS);
    let ce = (prod + NS - 1).div_euclid(NS);
    let eps = (prod / NS) >> 50; // relative error of the three f64 roundings
    let eps = eps + if prod / NS >= (1i128 << 50) { 1 } else { 0 };
    let h = ln - r;
    let lo = v.bound as i128 + fl - 1 - eps;
    let hi = v.bound as i128 + ce + eps;
    if h < lo {
        bad.push(("C05", "too-narrow".to_string(), format!("half-width {} < bound {} + drift {} ppb x {} ns elapsed = {} (tolerance {} ns)", h, v.bound, v.drift, elapsed, v.bound as i128 + fl, 1 + eps)));
    }
    if h > hi {
        bad.push(("C05", "too-wide".to_string(), format!("half-width {} > bound {} + drift {} ppb x {} ns elapsed = {} (tolerance {} ns)", h, v.bound, v.drift, elapsed, v.bound as i128 + ce, eps)));
    }
    // C06: status decision table (records whose void_after is at least 5 s after as_of).
    if va >= a + 5 * NS {
        let expected = if v.status == 0 {
            0
        } else if m < a + 5 * NS {
            v.status
        } else if m < va {
            2
        } else {
            0
        };
        // Exactly at void_after the statement allows either reading ("has not passed" / "older than").
        let at_void_after_edge = v.status != 0 && m == va && m >= a + 5 * NS && (st == 2 || st == 0);
        if st != expected && !at_void_after_edge {
            let rank = |s: i32| match s { 1 => 2, 2 => 1, _ => 0 };
            let sig = if rank(st) > rank(expected) { "status-too-strong" } else { "status-needlessly-degraded" };
            bad.push(("C06", sig.to_string(), format!("stored status {}, mono - as_of = {} ns, void_after - as_of = {} ns: reported {} expected {}", v.status, m - a, va - a, st, expected)));
        }
    }
    bad
}

// ------------------------------------------------------------------------------------ generators

fn rand_ts(rng: &mut Rng) -> (i64, i64) {
    let sec = match rng.below(8) {
        0 => RANGE_S,
        1 => -RANGE_S,
        2 => 0,
        3 => rng.range(-1000, 1000),
        _ => rng.range(-RANGE_S, RANGE_S),
    };
    let nsec = match rng.below(6) {
        0 => 0,
        1 => 999_999_999,
        2 => rng.range(0, 2000),
        3 => rng.range(999_998_000, 999_999_999),
        _ => rng.range(0, 999_999_999),
    };
    (sec, nsec)
}

fn clamp_ts(n: i128) -> i128 {
    let lim = RANGE_S as i128 * NS;
    n.clamp(-lim, lim + NS - 1)
}

fn rand_bound(rng: &mut Rng) -> i64 {
    match rng.below(8) {
        0 => 0,
        1 => (1i64 << 60) - 1,
        2 => rng.range(0, 1000),
        _ => rng.magnitude(60) as i64 & ((1i64 << 60) - 1),
    }
}

fn rand_drift(rng: &mut Rng) -> u32 {
    match rng.below(10) {
        0 => 0,
        1 => 1,
        2 => 1000,
        3 => 50_000,
        4 => 999_999_999,
        5 => *rng.pick(&[500_000u32, 1_000_000, 2_000_000, 250_000_000, 500_000_000, 125, 8, 3]),
        _ => rng.below(1_000_000_000) as u32,
    }
}

/// Ages at which a truncating conversion of the age would wrap: unit x 2^bits x k, plus a little.
fn wrap_age(rng: &mut Rng) -> i128 {
    let unit: i128 = *rng.pick(&[1i128, 1_000, 1_000_000, 1_000_000_000]);
    let bits = *rng.pick(&[15u32, 16, 24, 31, 32, 33, 40, 48, 52, 53, 63]);
    let k = 1 + rng.below(3) as i128;
    let base = unit.saturating_mul(1i128 << bits).saturating_mul(k);
    let delta = match rng.below(4) { 0 => -1, 1 => 0, 2 => rng.range(0, 5_000_000_000) as i128, _ => rng.range(0, 1_000_000) as i128 };
    let age = base + delta;
    // keep inside the +-68 year window (as_of may be as early as -68 years)
    if age > 2 * RANGE_S as i128 * NS { rng.range(0, 2 * RANGE_S) as i128 * NS } else { age.max(0) }
}

fn gen_c05(rng: &mut Rng) -> Vec<Vector> {
    let as_of = rand_ts(rng);
    let a = ns(as_of);
    let bound = rand_bound(rng);
    let drift = rand_drift(rng);
    let real = rand_ts(rng);
    let status = rng.below(3) as i32;
    let (elapsed, kind): (i128, &'static str) = match rng.below(11) {
        0 => (0, "age-zero"),
        1 => (-(rng.range(1, 999) as i128), "age-in-blur"),
        2 => (1, "age-1ns"),
        3 => (rng.range(1, 4_000_000) as i128, "age-sub-tick"),
        4 => ((NS - as_of.1 as i128) + rng.range(-2, 2) as i128, "age-to-second-boundary"),
        5 => (rng.range(1, 48) as i128 * 3600 * NS + rng.range(0, 999_999_999) as i128, "age-hours"),
        6 => (2 * RANGE_S as i128 * NS, "age-136-years"),
        7 => {
            // Product with a fractional part just below / at / above an integer.
            let d = drift.max(1) as i128;
            let k = rng.range(1, 1_000_000) as i128;
            ((k * NS + d - 1) / d + rng.range(-1, 1) as i128, "age-product-near-integer")
        }
        8 => (wrap_age(rng), "age-wrap-boundary"),
        _ => (rng.magnitude(62) as i128, "age-random"),
    };
    // a record old enough needs an early as_of
    let (as_of, a) = if elapsed > 40 * 365 * 86400 * NS || kind == "age-wrap-boundary" { let t = (-RANGE_S + rng.range(0, 1000), as_of.1); (t, ns(t)) } else { (as_of, a) };
    let m = clamp_ts(a + elapsed);
    // Keep the generated age when clamping moved mono: recompute nothing, the oracle uses mono.
    let void_after = match rng.below(3) {
        0 => (as_of.0.saturating_add(1000).min(RANGE_S), 0),
        1 => ts(clamp_ts(a + 5 * NS + rng.magnitude(40) as i128)),
        _ => rand_ts(rng),
    };
    let base = Vector { as_of, void_after, bound, drift, status, real, mono: ts(m), kind };
    let mut out = vec![base];
    // Monotone chain: the same record read later and later.
    if rng.chance(1, 3) {
        let mut cur = m;
        for _ in 0..3 {
            cur = clamp_ts(cur + rng.magnitude(50) as i128);
            out.push(Vector { mono: ts(cur), kind: "chain", ..base });
        }
    }
    out
}

fn gen_c06(rng: &mut Rng) -> Vec<Vector> {
    let as_of = {
        let mut t = rand_ts(rng);
        t.0 = t.0.clamp(-RANGE_S + 10, RANGE_S - 200_000);
        if rng.chance(1, 4) {
            // an early as_of leaves room for very old records
            t.0 = -RANGE_S + 10 + rng.range(0, 100_000);
        }
        t
    };
    let a = ns(as_of);
    let (va, va_kind) = match rng.below(4) {
        0 => (a + 5 * NS, "va=5s"),
        1 => (a + 5 * NS + 1, "va=5s+1"),
        2 => ((as_of.0 as i128 + 1000) * NS, "va=daemon"),
        _ => (a + 5 * NS + rng.magnitude(46) as i128, "va=random"),
    };
    let va = clamp_ts(va).max(a + 5 * NS);
    let status = rng.below(3) as i32;
    let off = rng.range(-1, 1) as i128;
    let (m, region): (i128, &'static str) = match rng.below(10) {
        0 => (a - 1000 + 1 + off.max(0), "blur-edge"),
        1 => (a + off, "as_of"),
        2 => (a + 5 * NS + off, "grace"),
        3 => (va + off, "void_after"),
        4 => (a + rng.range(0, 4_999_999_999) as i128, "in-grace"),
        5 => {
            if va - (a + 5 * NS) > 1 {
                (a + 5 * NS + rng.range(0, ((va - a - 5 * NS - 1).min(i64::MAX as i128)) as i64) as i128, "in-freerun")
            } else {
                (a + 5 * NS - 1, "grace")
            }
        }
        6 => (va + rng.magnitude(50) as i128, "beyond-void"),
        7 => (a - rng.range(0, 999) as i128, "in-blur"),
        8 => (a + wrap_age(rng), "wrap-boundary"),
        _ => (a + rng.magnitude(56) as i128, "random"),
    };
    let m = clamp_ts(m);
    let kind: &'static str = Box::leak(format!("s{}|{}|{}|{:+}", status, region, va_kind, off).into_boxed_str());
    vec![Vector { as_of, void_after: ts(va), bound: rand_bound(rng), drift: rand_drift(rng), status, real: rand_ts(rng), mono: ts(m), kind }]
}

fn gen_c14(rng: &mut Rng) -> Vec<Vector> {
    let as_of = rand_ts(rng);
    let a = ns(as_of);
    let (m, mk): (i128, &str) = match rng.below(9) {
        0 => (a - BLUR_NS.load(std::sync::atomic::Ordering::Relaxed) as i128 + rng.range(-2, 2) as i128, "blur-edge"),
        1 => (a - rng.range(1001, 5_000_000_000) as i128, "breach"),
        2 => (-(RANGE_S as i128) * NS, "mono-min"),
        3 => (RANGE_S as i128 * NS + NS - 1, "mono-max"),
        4 => (a - rng.range(0, 1000) as i128, "in-blur"),
        5 => (a - rng.magnitude(62) as i128, "deep-breach"),
        7 => (a + wrap_age(rng), "after-wrap-boundary"),
        _ => (a + rng.magnitude(62) as i128, "after"),
    };
    let m = clamp_ts(m);
    let (drift, dk): (u32, &str) = match rng.below(8) {
        0 => (999_999_999, "drift-max-valid"),
        1 => (1_000_000_000, "drift-1e9"),
        2 => (1_000_000_001, "drift-1e9+1"),
        3 => (u32::MAX, "drift-u32max"),
        4 => (1_000_000_000 + rng.below(3_294_967_295) as u32, "drift-invalid-random"),
        _ => (rand_drift(rng), "drift-valid"),
    };
    let bound = match rng.below(4) {
        0 => (1i64 << 60) - 1,
        1 => 0,
        _ => rand_bound(rng),
    };
    let real = match rng.below(4) {
        0 => (RANGE_S, 999_999_999),
        1 => (-RANGE_S, 0),
        _ => rand_ts(rng),
    };
    let kind: &'static str = Box::leak(format!("{}|{}", mk, dk).into_boxed_str());
    let first = Vector { as_of, void_after: rand_ts(rng), bound, drift, status: rng.below(3) as i32, real, mono: ts(m), kind };
    let mut out = vec![first];
    // The same record asked again at other instants (an error answer must not stick to the record):
    // before as_of minus the blur, then inside the blur, then after as_of.
    if rng.chance(1, 5) {
        let blur = BLUR_NS.load(std::sync::atomic::Ordering::Relaxed) as i128;
        for (mm, k2) in [(a - blur - 1 - rng.range(0, 1_000_000) as i128, "same-record-breach"), (a - rng.range(0, (blur - 1).max(0) as i64) as i128, "same-record-in-blur"), (a + rng.range(0, 3_000_000_000) as i128, "same-record-after")] {
            out.push(Vector { mono: ts(clamp_ts(mm)), kind: k2, ..first });
        }
    }
    out
}

pub fn generate(prop: &str, rng: &mut Rng) -> Vec<Vector> {
    match prop {
        "C05" => gen_c05(rng),
        "C06" => gen_c06(rng),
        "C14" => gen_c14(rng),
        // C17 and others: a blend of all generators.
        _ => match rng.below(3) {
            0 => gen_c05(rng),
            1 => gen_c06(rng),
            _ => gen_c14(rng),
        },
    }
}

// ------------------------------------------------------------------------------------ driver

struct Rig {
    dir: PathBuf,
    writer: ShmWriter,
    client: ClockBoundClient,
    order_checks: u64,
    order_violations: Vec<String>,
    calls: u64,
}

impl Rig {
    fn new() -> Rig {
        let dir = PathBuf::from(format!("/dev/shm/cbverif-client.{}", std::process::id()));
        std::fs::create_dir_all(&dir).unwrap();
        let path = dir.join("shm");
        let mut writer = ShmWriter::new(&path).expect("ShmWriter::new");
        writer.write(&ClockErrorBound::default());
        let client = ClockBoundClient::new_with_path(path.to_str().unwrap()).expect("client");
        Rig { dir, writer, client, order_checks: 0, order_violations: Vec::new(), calls: 0 }
    }

    fn eval(&mut self, v: &Vector) -> Outcome {
        let ceb = ClockErrorBound::new(
            libc::timespec { tv_sec: v.as_of.0, tv_nsec: v.as_of.1 },
            libc::timespec { tv_sec: v.void_after.0, tv_nsec: v.void_after.1 },
            v.bound,
            v.drift,
            0,
            status_of(v.status),
        );
        self.writer.write(&ceb);
        clock::fixed::set(v.real, v.mono);
        let client = &mut self.client;
        let _ = clock::fixed::take_order();
        // What the call inherits from its caller must not matter: the thread's errno cycles through
        // values an earlier, unrelated system call may have left; the work the call does is metered.
        self.calls += 1;
        vworld::meter::begin_call();
        vworld::meter::set_errno(vworld::meter::ERRNOS[(self.calls % vworld::meter::ERRNOS.len() as u64) as usize]);
        let answer = catch_unwind(AssertUnwindSafe(|| client.now()));
        if let Some(msg) = vworld::meter::end_call() {
            let _ = clock::fixed::take_order();
            return Outcome::Panic(format!("unbounded work, no return: {} (errno was {} when the call was made)", msg, vworld::meter::ERRNOS[(self.calls % vworld::meter::ERRNOS.len() as u64) as usize]));
        }
        // C12: whatever path now() takes, the monotonic clock is read after the realtime clock.
        let order = clock::fixed::take_order();
        let last_real = order.iter().rposition(|c| *c == libc::CLOCK_REALTIME);
        let last_mono = order.iter().rposition(|c| *c != libc::CLOCK_REALTIME);
        if let (Some(r), Some(m)) = (last_real, last_mono) {
            if r > m {
                self.order_violations.push(format!("{:?}", order));
            }
        }
        self.order_checks += 1;
        match answer {
            Ok(Ok(r)) => Outcome::Ok {
                earliest: (r.earliest.tv_sec(), r.earliest.tv_nsec()),
                latest: (r.latest.tv_sec(), r.latest.tv_nsec()),
                status: status_num(r.clock_status),
            },
            Ok(Err(e)) => Outcome::Err {
                kind: match e.kind {
                    ClockBoundErrorKind::Syscall => "Syscall",
                    ClockBoundErrorKind::SegmentNotInitialized => "SegmentNotInitialized",
                    ClockBoundErrorKind::SegmentMalformed => "SegmentMalformed",
                    ClockBoundErrorKind::CausalityBreach => "CausalityBreach",
                }
                .to_string(),
                errno: e.errno.0,
                detail: e.detail.clone(),
            },
            Err(p) => {
                let msg = if let Some(s) = p.downcast_ref::<&str>() { s.to_string() } else if let Some(s) = p.downcast_ref::<String>() { s.clone() } else { "?".to_string() };
                Outcome::Panic(msg)
            }
        }
    }
}

/// The statement does not fix the width of the blur, only that it is a clock-granularity tolerance.
/// Measure it: the smallest d such that a monotonic reading d ns before as_of yields an error.
fn calibrate_blur(rig: &mut Rig) -> i64 {
    let base = Vector { as_of: (1000, 500_000_000), void_after: (3000, 0), bound: 1, drift: 0, status: 1, real: (5000, 0), mono: (0, 0), kind: "calibration" };
    let errs = |rig: &mut Rig, d: i64| -> bool {
        let m = ns(base.as_of) - d as i128;
        !matches!(rig.eval(&Vector { mono: ts(m), ..base }), Outcome::Ok { .. })
    };
    let (mut lo, mut hi) = (0i64, 5_000_000_000i64);
    if errs(rig, lo) {
        return 0;
    }
    if !errs(rig, hi) {
        return hi;
    }
    while hi - lo > 1 {
        let mid = lo + (hi - lo) / 2;
        if errs(rig, mid) { hi = mid } else { lo = mid }
    }
    hi
}

impl Drop for Rig {
    fn drop(&mut self) {
        let _ = std::fs::remove_dir_all(&self.dir);
    }
}

fn kind_name(k: &ClockBoundErrorKind) -> &'static str {
    match k {
        ClockBoundErrorKind::Syscall => "Syscall",
        ClockBoundErrorKind::SegmentNotInitialized => "SegmentNotInitialized",
        ClockBoundErrorKind::SegmentMalformed => "SegmentMalformed",
        ClockBoundErrorKind::CausalityBreach => "CausalityBreach",
    }
}

fn main() {
    let args = parse_args();
    let mode = args.get("_").cloned().unwrap_or_default();
    let prop = arg_str(&args, "prop", "C05");
    let seed = arg_u64(&args, "seed", 1);
    let count = arg_u64(&args, "count", 1000);
    let shard_s = arg_str(&args, "shard", "0/1");
    let (shard, nshards): (u64, u64) = {
        let mut it = shard_s.split('/');
        (it.next().unwrap().parse().unwrap(), it.next().unwrap().parse().unwrap())
    };
    let replay_dir = arg_str(&args, "replays", "/verif/replays");
    let dump = arg_str(&args, "dump", "");
    let t0 = clock::real_clock_ns(libc::CLOCK_MONOTONIC);
    std::panic::set_hook(Box::new(|_| {}));

    let mut dump_file = if dump.is_empty() { None } else { Some(std::io::BufWriter::new(std::fs::File::create(&dump).unwrap())) };

    if mode == "openlist" {
        // One line per path: outcome of opening it through the Rust client and through ShmReader.
        let list = std::fs::read_to_string(arg_str(&args, "list", "")).expect("--list");
        for path in list.lines().filter(|l| !l.is_empty()) {
            let via_client = match catch_unwind(AssertUnwindSafe(|| ClockBoundClient::new_with_path(path).map(|_| ()))) {
                Ok(Ok(())) => "OPENED".to_string(),
                Ok(Err(e)) => format!("ERR {} {} {}", kind_name(&e.kind), e.errno.0, if e.detail.is_empty() { "-" } else { &e.detail }),
                Err(_) => "PANIC".to_string(),
            };
            let cpath = std::ffi::CString::new(path).unwrap();
            let via_reader = match catch_unwind(AssertUnwindSafe(|| clock_bound_shm::ShmReader::new(&cpath).map(|_| ()))) {
                Ok(Ok(())) => "OPENED".to_string(),
                Ok(Err(e)) => match e {
                    clock_bound_shm::ShmError::SyscallError(errno, detail) => format!("ERR Syscall {} {}", errno.0, detail.to_str().unwrap_or("?")),
                    clock_bound_shm::ShmError::SegmentNotInitialized => "ERR SegmentNotInitialized 0 -".to_string(),
                    clock_bound_shm::ShmError::SegmentMalformed => "ERR SegmentMalformed 0 -".to_string(),
                    clock_bound_shm::ShmError::CausalityBreach => "ERR CausalityBreach 0 -".to_string(),
                },
                Err(_) => "PANIC".to_string(),
            };
            println!("{} || {}", via_client, via_reader);
        }
        return;
    }

    if mode == "script" {
        // The Rust twin of ffi_driver's `script` mode (see there for the command language).
        use std::os::unix::fs::FileExt;
        let script = std::fs::read_to_string(arg_str(&args, "script", "")).expect("--script");
        let shm = arg_str(&args, "shm", "");
        let mut file = std::fs::OpenOptions::new().read(true).write(true).create(true).truncate(true).open(&shm).expect("shm file");
        clock::fixed::install();
        let mut client: Option<ClockBoundClient> = None;
        let out = std::io::stdout();
        let mut out = out.lock();
        for line in script.lines() {
            let t: Vec<&str> = line.split_whitespace().collect();
            if t.is_empty() {
                continue;
            }
            let num = |k: usize| t[k].parse::<i64>().unwrap();
            match t[0] {
                "W" => {
                    let mut b = [0u8; 72];
                    b[0..4].copy_from_slice(&0x414D5A4Eu32.to_ne_bytes());
                    b[4..8].copy_from_slice(&0x43420200u32.to_ne_bytes());
                    b[8..12].copy_from_slice(&72u32.to_ne_bytes());
                    b[12..14].copy_from_slice(&1u16.to_ne_bytes());
                    b[14..16].copy_from_slice(&(num(1) as u16).to_ne_bytes());
                    for k in 0..5 {
                        b[16 + 8 * k..24 + 8 * k].copy_from_slice(&num(2 + k).to_ne_bytes());
                    }
                    b[56..60].copy_from_slice(&(num(7) as u32).to_ne_bytes());
                    b[64..68].copy_from_slice(&(num(8) as i32).to_ne_bytes());
                    file.write_at(&b, 0).unwrap();
                }
                "G" => {
                    file.write_at(&(num(1) as u16).to_ne_bytes(), 14).unwrap();
                }
                "V" => {
                    file.write_at(&(num(1) as u16).to_ne_bytes(), 12).unwrap();
                }
                "R" => {
                    // the segment file is removed and created anew (a service manager that re-creates the
                    // run-time directory on restart): header with the given version and generation, zero body
                    let _ = std::fs::remove_file(&shm);
                    file = std::fs::OpenOptions::new().read(true).write(true).create(true).truncate(true).open(&shm).expect("shm file");
                    let mut b = [0u8; 72];
                    b[0..4].copy_from_slice(&0x414D5A4Eu32.to_ne_bytes());
                    b[4..8].copy_from_slice(&0x43420200u32.to_ne_bytes());
                    b[8..12].copy_from_slice(&72u32.to_ne_bytes());
                    b[12..14].copy_from_slice(&(num(1) as u16).to_ne_bytes());
                    b[14..16].copy_from_slice(&(num(2) as u16).to_ne_bytes());
                    file.write_at(&b, 0).unwrap();
                }
                "O" => {
                    client = None;
                    match ClockBoundClient::new_with_path(&shm) {
                        Ok(c) => {
                            client = Some(c);
                            writeln!(out, "OPEN OK").unwrap();
                        }
                        Err(e) => writeln!(out, "OPEN ERR {} {} {}", kind_name(&e.kind), e.errno.0, if e.detail.is_empty() { "-" } else { &e.detail }).unwrap(),
                    }
                }
                "C" => client = None,
                "N" => match client.as_mut() {
                    None => writeln!(out, "NOCTX").unwrap(),
                    Some(c) => {
                        clock::fixed::set((num(1), num(2)), (num(3), num(4)));
                        match c.now() {
                            Ok(r) => writeln!(out, "OK {} {} {} {} {}", r.earliest.tv_sec(), r.earliest.tv_nsec(), r.latest.tv_sec(), r.latest.tv_nsec(), status_num(r.clock_status)).unwrap(),
                            Err(e) => writeln!(out, "ERR {} {} {}", kind_name(&e.kind), e.errno.0, if e.detail.is_empty() { "-" } else { &e.detail }).unwrap(),
                        }
                        out.flush().unwrap();
                    }
                },
                _ => {}
            }
        }
        return;
    }

    if mode == "openstress" {
        // Failed opens must not consume anything: with a small descriptor limit, open every file of
        // the list many more times than the limit allows, then a valid segment must still open.
        // `--repeat N` (default 100) opens per file; beyond the per-process limit on mappings
        // (vm.max_map_count, 65530 by default) this also shows mappings left behind.
        let list = std::fs::read_to_string(arg_str(&args, "list", "")).expect("--list");
        let valid = arg_str(&args, "valid", "");
        let repeat = arg_u64(&args, "repeat", 100);
        let lim = libc::rlimit { rlim_cur: 64, rlim_max: 4096 };
        unsafe { libc::setrlimit(libc::RLIMIT_NOFILE, &lim) };
        let fds = || std::fs::read_dir("/proc/self/fd").map(|d| d.count()).unwrap_or(0);
        let maps = || std::fs::read_to_string("/proc/self/maps").map(|m| m.lines().count()).unwrap_or(0);
        let base = fds();
        let outcome = |r: Result<clock_bound_shm::ShmReader, clock_bound_shm::ShmError>| match r {
            Ok(_) => "OPENED".to_string(),
            Err(clock_bound_shm::ShmError::SyscallError(errno, detail)) => format!("ERR Syscall {} {}", errno.0, detail.to_str().unwrap_or("?")),
            Err(e) => format!("ERR {:?}", e),
        };
        for path in list.lines().filter(|l| !l.is_empty()) {
            let cpath = std::ffi::CString::new(path).unwrap();
            let mut first = String::new();
            let mut last = String::new();
            let mut changed_at = 0;
            let maps0 = maps();
            for k in 0..repeat {
                let r = outcome(clock_bound_shm::ShmReader::new(&cpath));
                if k == 0 {
                    first = r.clone();
                } else if r != first && changed_at == 0 {
                    changed_at = k;
                    last = r;
                    break;
                }
                last = r;
            }
            let after = fds();
            let maps1 = maps();
            let v = match clock_bound_shm::ShmReader::new(&std::ffi::CString::new(valid.as_str()).unwrap()) {
                Ok(mut r) => match r.snapshot() {
                    Ok(_) => "OPENED".to_string(),
                    Err(e) => format!("ERR snapshot {:?}", e),
                },
                Err(e) => format!("ERR {:?}", e),
            };
            println!("{} | first={} | last={} | fds={} (base {}) maps={} (before {}) changed_at={} | valid={}", path, first.replace(' ', "_"), last.replace(' ', "_"), after, base, maps1, maps0, changed_at, v.replace(' ', "_"));
            if after > base + 8 || maps1 > maps0 + 64 {
                // leaked: keep going would only repeat the failure; report and stop
                break;
            }
        }
        // Many contexts at once, as an unprivileged process would hold them (one per thread): no
        // CAP_IPC_LOCK, the usual 64 KiB of lockable memory.
        let many = arg_u64(&args, "simultaneous", 0);
        if many > 0 {
            #[repr(C)]
            struct CapHdr { version: u32, pid: i32 }
            #[repr(C)]
            #[derive(Clone, Copy)]
            struct CapData { effective: u32, permitted: u32, inheritable: u32 }
            let mut hdr = CapHdr { version: 0x2008_0522, pid: 0 };
            let mut data = [CapData { effective: 0, permitted: 0, inheritable: 0 }; 2];
            let mut dropped = false;
            unsafe {
                if libc::syscall(libc::SYS_capget, &mut hdr as *mut CapHdr, data.as_mut_ptr()) == 0 {
                    data[0].effective &= !(1u32 << 14);
                    dropped = libc::syscall(libc::SYS_capset, &mut hdr as *mut CapHdr, data.as_ptr()) == 0;
                }
                let l = libc::rlimit { rlim_cur: 65536, rlim_max: 65536 };
                libc::setrlimit(libc::RLIMIT_MEMLOCK, &l);
            }
            let cvalid = std::ffi::CString::new(valid.as_str()).unwrap();
            let mut held = Vec::new();
            let mut first_err = String::from("-");
            for k in 0..many {
                match clock_bound_shm::ShmReader::new(&cvalid) {
                    Ok(mut r) => match r.snapshot() {
                        Ok(_) => held.push(r),
                        Err(e) => {
                            first_err = format!("context {} snapshot {:?}", k + 1, e);
                            break;
                        }
                    },
                    Err(e) => {
                        first_err = format!("context {} open {:?}", k + 1, e);
                        break;
                    }
                }
            }
            println!("SIMULTANEOUS asked={} held={} unprivileged={} first_error={}", many, held.len(), dropped as i32, first_err.replace(' ', "_"));
        }
        return;
    }

    if mode == "threads" {
        // Several threads of one process, each with its own segment, writer and client (the header's
        // rule: one context per thread), all calling now() at the same time on different records.
        // Whatever the threads share inside the library (caches, memos, statics) must not leak from
        // one thread's record into another thread's answer.
        clock::fixed::install();
        clock::fixed::set_boot_offset(3_600_000_000_000);
        clock::fixed::set_real_coarse_lag(3_000_000);
        clock::fixed::set((1_700_000_000, 250_000_000), (5000, 0));
        BLUR_NS.store(arg_u64(&args, "blur", 1000) as i64, std::sync::atomic::Ordering::Relaxed);
        let nthreads = arg_u64(&args, "threads", 6);
        let per_thread = count;
        let results: std::sync::Arc<std::sync::Mutex<Vec<Value>>> = Default::default();
        let calls = std::sync::Arc::new(std::sync::atomic::AtomicU64::new(0));
        let mut handles = Vec::new();
        for t in 0..nthreads {
            let (results, calls, prop) = (results.clone(), calls.clone(), prop.clone());
            handles.push(std::thread::spawn(move || {
                clock::set_thread_virtual(true);
                let dir = PathBuf::from(format!("/dev/shm/cbverif-threads.{}.{}", std::process::id(), t));
                std::fs::create_dir_all(&dir).unwrap();
                let path = dir.join("shm");
                let mut writer = ShmWriter::new(&path).expect("ShmWriter::new");
                writer.write(&ClockErrorBound::default());
                let mut client = ClockBoundClient::new_with_path(path.to_str().unwrap()).expect("client");
                let mut rng = Rng::new(seed ^ (t << 20) ^ 0x7E4D);
                // a handful of records per thread, all answered "Ok" at the frozen instant, ages and bounds differing between threads
                let vectors: Vec<Vector> = (0..5).map(|k| {
                    let age_ns = rng.range(0, 900_000_000_000) as i128 + k as i128 * 1_000_003 + t as i128;
                    let as_of = 5000i128 * NS - age_ns;
                    Vector { as_of: ts(as_of), void_after: ts(as_of + 1000 * NS), bound: rng.range(1, 50_000_000) + 1000 * t as i64 + k as i64, drift: *rng.pick(&[1000u32, 50_000, 500_000, 123_456]), status: 1 + (k % 2) as i32,
                             real: (1_700_000_000, 250_000_000), mono: (5000, 0), kind: "threads" }
                }).collect();
                let mut bad: Vec<Value> = Vec::new();
                for n in 0..per_thread {
                    // each record is asked a few times in a row (a client polls faster than the daemon
                    // publishes, and a coarse clock repeats its readings)
                    let burst = 1 + (t % 4);
                    let v = &vectors[((n / burst) % 5) as usize];
                    if n % burst == 0 {
                        writer.write(&ClockErrorBound::new(libc::timespec { tv_sec: v.as_of.0, tv_nsec: v.as_of.1 }, libc::timespec { tv_sec: v.void_after.0, tv_nsec: v.void_after.1 }, v.bound, v.drift, 0, status_of(v.status)));
                    }
                    let o = match catch_unwind(AssertUnwindSafe(|| client.now())) {
                        Ok(Ok(r)) => Outcome::Ok { earliest: (r.earliest.tv_sec(), r.earliest.tv_nsec()), latest: (r.latest.tv_sec(), r.latest.tv_nsec()), status: status_num(r.clock_status) },
                        Ok(Err(e)) => Outcome::Err { kind: kind_name(&e.kind).to_string(), errno: e.errno.0, detail: e.detail.clone() },
                        Err(_) => Outcome::Panic("panic".into()),
                    };
                    for (p, sig, text) in oracle(v, &o) {
                        if (p == prop || prop == "C05") && bad.len() < 3 {
                            bad.push(json!({"sig": format!("threads-{}", sig), "detail": format!("thread {} of {} (own segment, own client), call {}: {} [vector {}] answered {}", t, nthreads, n, text, v.line(), o.line()), "replay": ""}));
                        }
                    }
                }
                calls.fetch_add(per_thread, std::sync::atomic::Ordering::Relaxed);
                drop(client);
                drop(writer);
                let _ = std::fs::remove_dir_all(&dir);
                results.lock().unwrap().extend(bad);
            }));
        }
        let mut panicked = 0;
        for h in handles {
            if h.join().is_err() {
                panicked += 1;
            }
        }
        let mut violations = results.lock().unwrap().clone();
        if panicked > 0 {
            violations.push(json!({"sig": "threads-panic", "detail": format!("{} client threads panicked", panicked), "replay": ""}));
        }
        violations.truncate(8);
        let out = json!({"evaluations": calls.load(std::sync::atomic::Ordering::Relaxed), "threads": nthreads, "violations": violations});
        let outp = arg_str(&args, "out", "");
        if outp.is_empty() {
            println!("{}", vworld::serde_json::to_string_pretty(&out).unwrap());
        } else {
            vworld::write_json(&outp, &out);
        }
        return;
    }

    if mode == "contexts" {
        // What a context reads is the file at the path at the moment it was opened, through a
        // mapping of its own; neither other contexts of the process nor the way the open had to be
        // done may change what now() answers. Scenarios: (A) the segment file is replaced by a new
        // one (new inode, as a cleaned /run directory gives) while an older context is alive, then
        // a new context is opened on the same path; (B) the same with the older context closed
        // first; (C) mmap() fails at the moment of the open (ENOMEM / ENODEV / EAGAIN): either the
        // open fails, or the context answers like any other.
        clock::fixed::install();
        clock::fixed::set_boot_offset(3_600_000_000_000);
        clock::fixed::set_real_coarse_lag(3_000_000);
        BLUR_NS.store(arg_u64(&args, "blur", 1000) as i64, std::sync::atomic::Ordering::Relaxed);
        let dir = PathBuf::from(format!("/dev/shm/cbverif-contexts.{}", std::process::id()));
        std::fs::create_dir_all(&dir).unwrap();
        let mut rng = Rng::new(seed ^ 0xC0_17E5);
        let mut violations: Vec<Value> = Vec::new();
        let mut counts: BTreeMap<String, u64> = BTreeMap::new();
        let mut evaluations = 0u64;
        let to_ceb = |v: &Vector| ClockErrorBound::new(
            libc::timespec { tv_sec: v.as_of.0, tv_nsec: v.as_of.1 },
            libc::timespec { tv_sec: v.void_after.0, tv_nsec: v.void_after.1 },
            v.bound, v.drift, 0, status_of(v.status));
        let ask = |client: &mut ClockBoundClient, v: &Vector| -> Outcome {
            clock::fixed::set(v.real, v.mono);
            vworld::meter::begin_call();
            let answer = catch_unwind(AssertUnwindSafe(|| client.now()));
            if let Some(msg) = vworld::meter::end_call() {
                return Outcome::Panic(format!("unbounded work, no return: {}", msg));
            }
            match answer {
                Ok(Ok(r)) => Outcome::Ok { earliest: (r.earliest.tv_sec(), r.earliest.tv_nsec()), latest: (r.latest.tv_sec(), r.latest.tv_nsec()), status: status_num(r.clock_status) },
                Ok(Err(e)) => Outcome::Err { kind: kind_name(&e.kind).to_string(), errno: e.errno.0, detail: e.detail.clone() },
                Err(_) => Outcome::Panic("panic".into()),
            }
        };
        let mut judge = |what: &str, v: &Vector, o: &Outcome, violations: &mut Vec<Value>, evaluations: &mut u64| {
            *evaluations += 1;
            for (p, sig, text) in oracle(v, o) {
                if violations.len() < 12 {
                    let rp = format!("{}/{}-contexts-{}-{}.json", replay_dir, prop, seed, violations.len());
                    vworld::write_json(&rp, &json!({"property": prop, "engine": "clientsim-contexts", "scenario": what, "vector": v.to_json(), "outcome": o.line(), "sig": sig, "detail": text, "judged_as": p}));
                    violations.push(json!({"sig": format!("{}-{}", what.split(':').next().unwrap_or("ctx"), sig), "detail": format!("[{}] {} [vector {}] answered {}", what, text, v.line(), o.line()), "replay": rp}));
                }
            }
        };
        for it in 0..count {
            let path = dir.join(format!("shm{}", it % 4));
            let spath = path.to_str().unwrap().to_string();
            let _ = std::fs::remove_file(&path);
            let scen = it % 4;
            if scen == 3 {
                // (D) another context of the process has read a trusted record; the daemon then
                // published a downgrade nobody here has read and died inside its next update (odd
                // generation). A context opened now has never seen a complete record: it may only
                // answer Unknown, or fail.
                use std::os::unix::fs::FileExt;
                let mut w = ShmWriter::new(&path).expect("ShmWriter::new");
                let fresh = Vector { as_of: (5000, 0), void_after: (6000, 0), bound: 1000 + it as i64, drift: 1000, status: 1 + (it % 8 / 4) as i32, real: (1_700_000_000, 0), mono: (5000, 100 + (it % 3) as i64 * 2_000_000_000), kind: "contexts" };
                w.write(&to_ceb(&fresh));
                let mut a = ClockBoundClient::new_with_path(&spath).ok();
                if let Some(c) = a.as_mut() {
                    let o = ask(c, &fresh);
                    judge("first-context", &fresh, &o, &mut violations, &mut evaluations);
                }
                w.write(&to_ceb(&Vector { status: 0, ..fresh }));
                let f = std::fs::OpenOptions::new().read(true).write(true).open(&path).unwrap();
                let mut g = [0u8; 2];
                f.read_at(&mut g, 14).unwrap();
                let odd = u16::from_ne_bytes(g) | 1;
                f.write_at(&odd.to_ne_bytes(), 14).unwrap();
                drop(f);
                if it % 8 >= 6 {
                    a = None;
                }
                clock::fixed::set(fresh.real, fresh.mono);
                let r = catch_unwind(AssertUnwindSafe(|| ClockBoundClient::new_with_path(&spath).and_then(|mut b| b.now())));
                evaluations += 1;
                match r {
                    Ok(Ok(res)) if status_num(res.clock_status) != 0 => {
                        if violations.len() < 12 {
                            violations.push(json!({"sig": "new-context-answers-from-a-record-it-never-read", "detail": format!("another context of the process had read {{status {}, as_of 5000 s}}; the daemon then published Unknown and died inside its next update (generation odd); a context opened now answered status {} (earliest {:?} latest {:?}) although it has never seen a complete record", fresh.status, status_num(res.clock_status), res.earliest, res.latest), "replay": ""}));
                        }
                    }
                    Ok(_) => *counts.entry("scenario3-unknown-or-error".into()).or_insert(0) += 1,
                    Err(_) => violations.push(json!({"sig": "new-context-panic", "detail": "opening a context at an odd generation panicked", "replay": ""})),
                }
                drop(a);
                drop(w);
                vworld::close_rdwr_fds_under(&dir);
                continue;
            }
            let v1 = generate(&prop, &mut rng).remove(0);
            let v2 = generate(&prop, &mut rng).remove(0);
            let v3 = generate(&prop, &mut rng).remove(0);
            if scen < 2 {
                let mut w1 = ShmWriter::new(&path).expect("ShmWriter::new");
                w1.write(&to_ceb(&v1));
                let mut a = match ClockBoundClient::new_with_path(&spath) {
                    Ok(c) => Some(c),
                    Err(_) => None,
                };
                if let Some(c) = a.as_mut() {
                    let o = ask(c, &v1);
                    judge("first-context", &v1, &o, &mut violations, &mut evaluations);
                }
                if scen == 1 {
                    a = None;
                }
                // a new daemon in a cleaned directory: new file, new inode, same path
                let tmp = dir.join(format!("shm{}.new", it % 4));
                let _ = std::fs::remove_file(&tmp);
                let mut w2 = ShmWriter::new(&tmp).expect("ShmWriter::new");
                w2.write(&to_ceb(&v2));
                std::fs::rename(&tmp, &path).unwrap();
                let what = if scen == 0 { "replaced-file-older-context-alive: a new context opened on the same path after the segment file was replaced (new inode)" } else { "replaced-file-older-context-closed: a new context opened on the same path after the segment file was replaced (new inode)" };
                match ClockBoundClient::new_with_path(&spath) {
                    Ok(mut b) => {
                        let o = ask(&mut b, &v2);
                        judge(what, &v2, &o, &mut violations, &mut evaluations);
                        w2.write(&to_ceb(&v3));
                        let o = ask(&mut b, &v3);
                        judge(what, &v3, &o, &mut violations, &mut evaluations);
                        *counts.entry(format!("scenario{}-judged", scen)).or_insert(0) += 1;
                    }
                    Err(e) => {
                        evaluations += 1;
                        if violations.len() < 12 {
                            violations.push(json!({"sig": "replaced-file-open-failed", "detail": format!("[{}] the open failed: {} {}", what, kind_name(&e.kind), e.errno.0), "replay": ""}));
                        }
                    }
                }
                drop(a);
                drop(w1);
                drop(w2);
                vworld::close_rdwr_fds_under(&dir);
            } else {
                let mut w = ShmWriter::new(&path).expect("ShmWriter::new");
                w.write(&to_ceb(&v1));
                let e = *rng.pick(&[libc::ENOMEM, libc::ENODEV, libc::EAGAIN, libc::EACCES]);
                vworld::meter::fail_mmap(e);
                let r = catch_unwind(AssertUnwindSafe(|| ClockBoundClient::new_with_path(&spath)));
                vworld::meter::fail_mmap(0);
                let what = "mmap-failed-at-open: mmap() of the segment failed when the context was opened, a context was handed out all the same";
                match r {
                    Ok(Ok(mut c)) => {
                        *counts.entry("mmap-failed-context-handed-out".into()).or_insert(0) += 1;
                        for v in [&v1, &v2, &v3] {
                            w.write(&to_ceb(v));
                            let o = ask(&mut c, v);
                            judge(what, v, &o, &mut violations, &mut evaluations);
                        }
                    }
                    Ok(Err(err)) => {
                        evaluations += 1;
                        *counts.entry(format!("mmap-failed-open-refused-{}-{}", kind_name(&err.kind), err.errno.0)).or_insert(0) += 1;
                        if err.errno.0 != e && violations.len() < 12 {
                            violations.push(json!({"sig": "mmap-failed-wrong-errno", "detail": format!("mmap() failed with errno {} at open, the error reports {} {} {:?}", e, kind_name(&err.kind), err.errno.0, err.detail), "replay": ""}));
                        }
                    }
                    Err(_) => {
                        evaluations += 1;
                        violations.push(json!({"sig": "mmap-failed-panic", "detail": format!("mmap() failed with errno {} at open and the open panicked", e), "replay": ""}));
                    }
                }
                drop(w);
                vworld::close_rdwr_fds_under(&dir);
            }
        }
        let _ = std::fs::remove_dir_all(&dir);
        let out = json!({"evaluations": evaluations, "counts": counts, "violations": violations, "mmap_failures_injected": vworld::meter::MMAP_FAILURES_INJECTED.load(std::sync::atomic::Ordering::Relaxed)});
        let outp = arg_str(&args, "out", "");
        if outp.is_empty() {
            println!("{}", vworld::serde_json::to_string_pretty(&out).unwrap());
        } else {
            vworld::write_json(&outp, &out);
        }
        return;
    }

    if mode == "repairfail" {
        // Start-up over each file while the file system fills up: the k-th write() to the segment
        // file and all later ones fail with ENOSPC (EDQUOT, EIO). The daemon may refuse to start;
        // if it starts and publishes, new clients must be able to read the record back.
        use clock_bound_shm::ShmReader;
        let list = std::fs::read_to_string(arg_str(&args, "list", "")).expect("--list");
        for (i, path) in list.lines().filter(|l| !l.is_empty()).enumerate() {
            let original = std::fs::read(path).ok();
            for after in 0..7u32 {
                for errno in [libc::ENOSPC, libc::EIO] {
                    match &original {
                        Some(b) => std::fs::write(path, b).unwrap(),
                        None => {
                            let _ = std::fs::remove_file(path);
                        }
                    }
                    let rec = ClockErrorBound::new(libc::timespec { tv_sec: 1000 + i as i64, tv_nsec: 5 }, libc::timespec { tv_sec: 2000, tv_nsec: 0 }, 777 + after as i64, 50_000, 0, ClockStatus::Synchronized);
                    vworld::meter::fail_writes_of(path, errno, after, 1000);
                    let started = catch_unwind(AssertUnwindSafe(|| ShmWriter::new(std::path::Path::new(path))));
                    vworld::meter::fail_writes_of(path, 0, 0, 0);
                    let injected = vworld::meter::WRITE_FAILURES_INJECTED.swap(0, std::sync::atomic::Ordering::Relaxed);
                    match started {
                        Ok(Ok(mut w)) => {
                            w.write(&rec);
                            let cpath = std::ffi::CString::new(path).unwrap();
                            let a = match catch_unwind(AssertUnwindSafe(|| match ShmReader::new(&cpath) {
                                Ok(mut r) => match r.snapshot() {
                                    Ok(c) => if *c == rec { "same".to_string() } else { "differs".to_string() },
                                    Err(e) => format!("snapshot-err:{:?}", e).replace(' ', ""),
                                },
                                Err(e) => format!("open-err:{:?}", e).replace(' ', ""),
                            })) {
                                Ok(s) => s,
                                Err(_) => "panic".to_string(),
                            };
                            let bytes = std::fs::read(path).unwrap_or_default();
                            let hex: String = bytes.iter().take(16).map(|b| format!("{:02x}", b)).collect();
                            println!("STARTED file={} after={} errno={} injected={} A={} len={} header={}", i, after, errno, injected, a, bytes.len(), hex);
                            drop(w);
                            vworld::close_fds_pointing_to(std::path::Path::new(path), &[]);
                        }
                        Ok(Err(e)) => println!("REFUSED file={} after={} errno={} injected={} {}", i, after, errno, injected, format!("{}", e).replace(' ', "_")),
                        Err(_) => println!("PANIC file={} after={} errno={} injected={}", i, after, errno, injected),
                    }
                }
            }
        }
        return;
    }

    if mode == "repair" {
        // Daemon start-up and first publication over pre-existing files; what new clients then read.
        use clock_bound_shm::ShmReader;
        use std::os::unix::fs::MetadataExt;
        use std::os::unix::io::AsRawFd;
        let list = std::fs::read_to_string(arg_str(&args, "list", "")).expect("--list");
        for (i, path) in list.lines().filter(|l| !l.is_empty()).enumerate() {
            let i = i as i64;
            let rec = ClockErrorBound::new(
                libc::timespec { tv_sec: 1000 + i, tv_nsec: 5 },
                libc::timespec { tv_sec: 2000 + i, tv_nsec: 0 },
                777 + i,
                50_000,
                0,
                ClockStatus::Synchronized,
            );
            let ino_before = std::fs::metadata(path).map(|m| m.ino()).unwrap_or(0);
            let cpath = std::ffi::CString::new(path).unwrap();
            let read_back = |tag: &str| -> String {
                match catch_unwind(AssertUnwindSafe(|| match ShmReader::new(&cpath) {
                    Ok(mut r) => match r.snapshot() {
                        Ok(c) => {
                            if *c == rec { "same".to_string() } else { format!("differs:{:?}", c).replace(' ', "") }
                        }
                        Err(e) => format!("snapshot-err:{:?}", e).replace(' ', ""),
                    },
                    Err(e) => format!("open-err:{:?}", e).replace(' ', ""),
                })) {
                    Ok(s) => format!("{}={}", tag, s),
                    Err(_) => format!("{}=panic", tag),
                }
            };
            let started = catch_unwind(AssertUnwindSafe(|| ShmWriter::new(std::path::Path::new(path))));
            let mut w = match started {
                Ok(Ok(w)) => w,
                Ok(Err(e)) => {
                    println!("NEWERR {}", format!("{}", e).replace(' ', "_"));
                    continue;
                }
                Err(_) => {
                    println!("NEWPANIC");
                    continue;
                }
            };
            w.write(&rec);
            let a = read_back("A");
            drop(w);
            // "The daemon died and a client starts later": nothing keeps the pages in memory.
            let mut evicted = "no";
            if let Ok(f) = std::fs::OpenOptions::new().read(true).write(true).open(path) {
                let _ = f.sync_all();
                let rc = unsafe { libc::posix_fadvise(f.as_raw_fd(), 0, 0, libc::POSIX_FADV_DONTNEED) };
                evicted = if rc == 0 { "asked" } else { "refused" };
            }
            let b = read_back("B");
            let meta = std::fs::metadata(path);
            let (ino_after, len) = meta.map(|m| (m.ino(), m.len())).unwrap_or((0, 0));
            let bytes = std::fs::read(path).unwrap_or_default();
            let hex: String = bytes.iter().take(96).map(|b| format!("{:02x}", b)).collect();
            println!("DONE {} {} ino_same={} len={} evict={} hex={} rec={},{},{},{},{},{},{}", a, b, (ino_before != 0 && ino_before == ino_after) as i32, len, evicted, hex,
                     1000 + i, 5, 2000 + i, 0, 777 + i, 50_000, 1);
        }
        return;
    }

    if mode == "layout" {
        // Records written by the real ShmWriter, and the bytes the file then holds.
        let dir = PathBuf::from(format!("/dev/shm/cbverif-layout.{}", std::process::id()));
        std::fs::create_dir_all(&dir).unwrap();
        let path = dir.join("shm");
        let mut writer = ShmWriter::new(&path).expect("ShmWriter::new");
        let mut rng = Rng::new(seed ^ 0x1A70);
        let f = dump_file.as_mut().expect("--dump");
        for _ in 0..count {
            let v = &generate("C17", &mut rng)[0];
            let reserved = rng.next() as u32;
            let ceb = ClockErrorBound::new(
                libc::timespec { tv_sec: v.as_of.0, tv_nsec: v.as_of.1 },
                libc::timespec { tv_sec: v.void_after.0, tv_nsec: v.void_after.1 },
                v.bound,
                v.drift,
                reserved,
                status_of(v.status),
            );
            if rng.chance(1, 20) {
                // the counter is about to wrap, or a previous daemon died inside an update
                use std::os::unix::fs::FileExt;
                let g: u16 = *rng.pick(&[0xFFFFu16, 0xFFFE, 0xFFFD, 0xFFFC, 1, 3, 0x7FFF, 0x8001]);
                std::fs::OpenOptions::new().write(true).open(&path).unwrap().write_at(&g.to_ne_bytes(), 14).unwrap();
            }
            writer.write(&ceb);
            let bytes = std::fs::read(&path).unwrap();
            let hex: String = bytes.iter().map(|b| format!("{:02x}", b)).collect();
            writeln!(f, "{} {} {} {} {} {} {} {} {}", v.as_of.0, v.as_of.1, v.void_after.0, v.void_after.1, v.bound, v.drift, reserved, v.status, hex).unwrap();
        }
        drop(writer);
        let _ = std::fs::remove_dir_all(&dir);
        return;
    }

    if mode == "vectors" {
        // Only generate (for the C driver).
        let mut rng = Rng::new(seed ^ 0xC0FFEE);
        let f = dump_file.as_mut().expect("--dump");
        let mut n = 0;
        while n < count {
            for v in generate(&prop, &mut rng) {
                writeln!(f, "{}", v.line()).unwrap();
                n += 1;
            }
        }
        return;
    }

    clock::fixed::install();
    // Clocks with other semantics than the two the client is documented to read: the machine has been
    // suspended for an hour (CLOCK_BOOTTIME is ahead of the monotonic clock), the coarse realtime
    // clock lags the precise one by 3 ms.
    clock::fixed::set_boot_offset(3_600_000_000_000);
    clock::fixed::set_real_coarse_lag(3_000_000);
    // Hostile caller state, by shard: signals arriving on the calling thread (no SA_RESTART), and a
    // standard error that refuses every write.
    let hostile_signals = mode == "sweep" && shard % 2 == 1;
    let hostile_stderr = mode == "sweep" && shard % 4 >= 2 && vworld::meter::stderr_unwritable();
    if hostile_signals {
        vworld::meter::start_signals(400);
    }
    let mut rig = Rig::new();
    let blur = calibrate_blur(&mut rig);
    BLUR_NS.store(blur, std::sync::atomic::Ordering::Relaxed);
    let mut cells: BTreeMap<String, u64> = BTreeMap::new();
    let mut outcomes: BTreeMap<String, u64> = BTreeMap::new();
    let mut violations: Vec<Value> = Vec::new();
    let mut evaluations = 0u64;
    // Distinct input vectors, by 64-bit hash; counting stops at a cap so that memory stays bounded
    // in the thorough tier (the count is then a lower bound, reported as such).
    const DISTINCT_CAP: usize = 3_000_000;
    let mut distinct: std::collections::HashSet<u64> = std::collections::HashSet::new();
    let mut samples: Vec<Value> = Vec::new();
    let mut chain_checks = 0u64;

    if mode == "replay" {
        let v: Value = vworld::serde_json::from_str(&std::fs::read_to_string(arg_str(&args, "file", "")).unwrap()).unwrap();
        let x = &v["vector"];
        let p2 = |k: &str| (x[k][0].as_i64().unwrap(), x[k][1].as_i64().unwrap());
        let vec = Vector { as_of: p2("as_of"), void_after: p2("void_after"), bound: x["bound_nsec"].as_i64().unwrap(), drift: x["max_drift_ppb"].as_u64().unwrap() as u32,
                           status: x["status"].as_i64().unwrap() as i32, real: p2("real"), mono: p2("mono"), kind: "replay" };
        let o = rig.eval(&vec);
        let bad = oracle(&vec, &o);
        println!("{}", vworld::serde_json::to_string_pretty(&json!({"vector": vec.to_json(), "outcome": o.line(), "violations": bad.iter().map(|b| json!({"property": b.0, "sig": b.1, "detail": b.2})).collect::<Vec<_>>()})).unwrap());
        return;
    }

    let mut k = shard;
    while k < count {
        let mut rng = Rng::new(Rng::new(seed.wrapping_mul(0x2545_F491).wrapping_add(k)).next());
        let group = generate(&prop, &mut rng);
        let mut prev_h: Option<(i128, i128)> = None;
        for v in group.iter() {
            let o = rig.eval(v);
            evaluations += 1;
            *cells.entry(v.kind.to_string()).or_insert(0) += 1;
            let okind = match &o {
                Outcome::Ok { status, .. } => format!("ok-status{}", status),
                Outcome::Err { kind, .. } => format!("err-{}", kind),
                Outcome::Panic(_) => "panic".to_string(),
            };
            *outcomes.entry(okind).or_insert(0) += 1;
            if distinct.len() < DISTINCT_CAP {
                use std::hash::{Hash, Hasher};
                let mut h = std::collections::hash_map::DefaultHasher::new();
                (v.as_of, v.void_after, v.bound, v.drift, v.status, v.real, v.mono).hash(&mut h);
                distinct.insert(h.finish());
            }
            if let Some(f) = dump_file.as_mut() {
                writeln!(f, "{} | {}", v.line(), o.line()).unwrap();
            }
            let mut bad = oracle(v, &o);
            // C05: the half-width never shrinks as the same record gets older.
            if let Outcome::Ok { latest, .. } = &o {
                let h = ns(*latest) - ns(v.real);
                let m = ns(v.mono);
                if v.kind == "chain" {
                    if let Some((pm, ph)) = prev_h {
                        chain_checks += 1;
                        if m >= pm && h < ph {
                            bad.push(("C05", "shrinks-with-age".to_string(), format!("half-width {} at mono {} is smaller than {} at the earlier mono {}", h, m, ph, pm)));
                        }
                    }
                }
                prev_h = Some((m, h));
            } else {
                prev_h = None;
            }
            for (p, sig, text) in bad {
                if p != prop && !(prop == "C05" && p == "C14" && sig == "panic") {
                    continue;
                }
                if violations.len() < 20 {
                    let rp = format!("{}/{}-client-{}-{}-{}.json", replay_dir, prop, seed, k, violations.len());
                    vworld::write_json(&rp, &json!({"property": prop, "engine": "clientsim", "vector": v.to_json(), "outcome": o.line(), "sig": sig, "detail": text}));
                    violations.push(json!({"sig": sig, "detail": format!("{} [vector {}]", text, v.line()), "replay": rp}));
                }
            }
            if samples.len() < 3 && evaluations % 997 == 1 {
                samples.push(json!({"vector": v.to_json(), "outcome": o.line()}));
            }
        }
        k += nshards;
    }
    // Long streaks of one and the same kind of answer on one client (state that accumulates over
    // millions of calls): the 1,300,000th answer is judged like the first.
    let mut streak_calls = 0u64;
    if mode == "sweep" && shard == 0 {
        let base = Vector { as_of: (1000, 0), void_after: (2000, 0), bound: 5000, drift: 50_000, status: 1, real: (1_700_000_000, 0), mono: (1000, 500), kind: "streak" };
        let kinds: Vec<Vector> = vec![
            Vector { mono: (990, 0), ..base },                    // causality breach
            Vector { drift: 2_000_000_000, ..base },              // malformed drift
            base,                                                 // synchronised
            Vector { mono: (1500, 0), ..base },                   // free running by age
            Vector { mono: (2500, 0), ..base },                   // unknown by age
            Vector { status: 0, ..base },                         // unknown as published
        ];
        for v in kinds.iter() {
            let mut first_bad: Option<(u64, String)> = None;
            for n in 0..1_300_000u64 {
                let o = rig.eval(v);
                streak_calls += 1;
                if first_bad.is_none() {
                    let bad = oracle(v, &o);
                    if let Some((_, sig, text)) = bad.into_iter().find(|(p, sig, _)| p == &prop || (prop == "C05" && *p == "C14" && sig == "panic")) {
                        first_bad = Some((n, format!("{}: {}", sig, text)));
                    }
                }
            }
            if let Some((n, text)) = first_bad {
                if violations.len() < 20 {
                    violations.push(json!({"sig": "answer-changes-after-a-long-streak", "detail": format!("the same record and clock readings asked {} times in a row on one client: answer #{} is wrong: {} [vector {}]", 1_300_000, n + 1, text, v.line()), "replay": ""}));
                }
            }
        }
    }
    let order_checks = rig.order_checks;
    for o in rig.order_violations.iter().take(3) {
        if violations.len() < 20 {
            violations.push(json!({"sig": "clock-read-order", "detail": format!("now() read the clocks in the order {} (ids: 0 realtime, 6 monotonic coarse, 1 monotonic): the monotonic clock must be read after CLOCK_REALTIME", o), "replay": ""}));
        }
    }
    drop(rig);
    vworld::meter::stop_signals();
    let out = json!({
        "hostile": {"errno_values": vworld::meter::ERRNOS.len(), "signals": hostile_signals, "signals_delivered": vworld::meter::SIGNALS_DELIVERED.load(std::sync::atomic::Ordering::Relaxed), "stderr_unwritable": hostile_stderr},
        "evaluations": evaluations, "distinct": distinct.len(), "distinct_capped": distinct.len() >= DISTINCT_CAP, "cells": cells, "outcomes": outcomes, "chain_checks": chain_checks,
        "violations": violations, "samples": samples, "virtual_clock_reads": clock::virtual_reads(), "blur_ns": blur, "clock_order_checks": order_checks, "streak_calls": streak_calls,
        "wall_s": (clock::real_clock_ns(libc::CLOCK_MONOTONIC) - t0) as f64 / 1e9,
    });
    let outp = arg_str(&args, "out", "");
    if outp.is_empty() {
        println!("{}", vworld::serde_json::to_string_pretty(&out).unwrap());
    } else {
        vworld::write_json(&outp, &out);
    }
}

fn main() {}

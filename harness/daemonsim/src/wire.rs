//! Chrony tracking reports built from wire bytes: arbitrary 32-bit patterns in the float fields.

use bytes::BytesMut;
use chrony_candm::common::ChronyAddr;
use chrony_candm::reply::{Reply, ReplyBody, Status, Tracking};
use std::time::{Duration, SystemTime, UNIX_EPOCH};

pub const OFF_CORRECTION: usize = 68;
pub const OFF_ROOT_DELAY: usize = 92;
pub const OFF_ROOT_DISPERSION: usize = 96;
pub const OFF_INTERVAL: usize = 100;
pub const OFF_LEAP: usize = 54;
pub const OFF_REFID: usize = 28;
pub const OFF_REFTIME: usize = 56;
pub const REPLY_LEN: usize = 104;

#[derive(Debug, Clone, Copy)]
pub struct Report {
    pub ref_id: u32,
    pub leap: u16,
    /// Reference time, in nanoseconds of CLOCK_REALTIME since the epoch.
    pub ref_time_ns: i128,
    pub correction_bits: u32,
    pub delay_bits: u32,
    pub dispersion_bits: u32,
    pub interval_bits: u32,
}

/// A chrony float, decoded exactly: value = coef * 2^e2.
pub fn decode_float(bits: u32) -> (i64, i32) {
    let mut exp = (bits >> 25) as i32;
    if exp >= 64 {
        exp -= 128;
    }
    let mut coef = (bits & 0x1ff_ffff) as i64;
    if coef >= 1 << 24 {
        coef -= 1 << 25;
    }
    (coef, exp - 25)
}

pub fn float_bits(coef: i64, exp: i32) -> u32 {
    debug_assert!((-(1 << 24)..(1 << 24)).contains(&coef) && (-64..64).contains(&exp));
    (((exp as u32) & 0x7f) << 25) | ((coef as u32) & 0x1ff_ffff)
}

/// Bits of the chrony float nearest to `v`, as chrony-candm (and chrony) convert it.
pub fn bits_of_f64(v: f64) -> u32 {
    let t = template(v);
    u32::from_be_bytes(t[OFF_INTERVAL..OFF_INTERVAL + 4].try_into().unwrap())
}

pub fn f64_of_bits(bits: u32) -> f64 {
    let (c, e) = decode_float(bits);
    c as f64 * 2f64.powi(e)
}

fn template(interval: f64) -> Vec<u8> {
    let tracking = Tracking {
        ref_id: 0,
        ip_addr: ChronyAddr::default(),
        stratum: 1,
        leap_status: 0,
        ref_time: UNIX_EPOCH,
        current_correction: 0.0.into(),
        last_offset: 0.0.into(),
        rms_offset: 0.0.into(),
        freq_ppm: 0.0.into(),
        resid_freq_ppm: 0.0.into(),
        skew_ppm: 0.0.into(),
        root_delay: 0.0.into(),
        root_dispersion: 0.0.into(),
        last_update_interval: interval.into(),
    };
    let reply = Reply { status: Status::Success, cmd: 33, sequence: 0, body: ReplyBody::Tracking(tracking) };
    let mut buf = BytesMut::with_capacity(reply.length());
    reply.serialize(&mut buf);
    buf.to_vec()
}

/// Fields of a tracking report that no property mentions (source address and its family, stratum,
/// last/RMS offset, frequency, residual frequency, skew) take pseudo-random values, a new draw per
/// report: nothing the daemon publishes may depend on them.
static NOISE: std::sync::atomic::AtomicU64 = std::sync::atomic::AtomicU64::new(0x9E37_79B9_7F4A_7C15);
pub static NOISE_FAMILIES: [std::sync::atomic::AtomicU64; 4] = [std::sync::atomic::AtomicU64::new(0), std::sync::atomic::AtomicU64::new(0), std::sync::atomic::AtomicU64::new(0), std::sync::atomic::AtomicU64::new(0)];

fn noise_next() -> u64 {
    let mut z = NOISE.fetch_add(0x9E37_79B9_7F4A_7C15, std::sync::atomic::Ordering::Relaxed);
    z = (z ^ (z >> 30)).wrapping_mul(0xBF58_476D_1CE4_E5B9);
    z = (z ^ (z >> 27)).wrapping_mul(0x94D0_49BB_1331_11EB);
    z ^ (z >> 31)
}

static REPEAT_NOISE: std::sync::atomic::AtomicBool = std::sync::atomic::AtomicBool::new(false);
static LAST_NOISE: std::sync::Mutex<Option<Vec<u8>>> = std::sync::Mutex::new(None);

/// The next report carries the same values in the unused fields as the previous one (chronyd
/// reporting the bit-identical state twice).
pub fn repeat_noise_once() {
    REPEAT_NOISE.store(true, std::sync::atomic::Ordering::SeqCst);
}

fn add_noise(b: &mut [u8]) {
    if REPEAT_NOISE.swap(false, std::sync::atomic::Ordering::SeqCst) {
        if let Some(prev) = LAST_NOISE.lock().unwrap().as_ref() {
            b[32..54].copy_from_slice(&prev[0..22]);
            b[72..92].copy_from_slice(&prev[22..42]);
            return;
        }
    }
    add_noise_fresh(b);
    let mut keep = Vec::with_capacity(42);
    keep.extend_from_slice(&b[32..54]);
    keep.extend_from_slice(&b[72..92]);
    *LAST_NOISE.lock().unwrap() = Some(keep);
}

fn add_noise_fresh(b: &mut [u8]) {
    let n = noise_next();
    let family = (n & 3) as u16; // 0 unspecified, 1 IPv4, 2 IPv6, 3 identifier
    NOISE_FAMILIES[family as usize].fetch_add(1, std::sync::atomic::Ordering::Relaxed);
    if family != 0 {
        let a = noise_next().to_be_bytes();
        let c = noise_next().to_be_bytes();
        b[32..40].copy_from_slice(&a);
        b[40..48].copy_from_slice(&c);
    }
    b[48..50].copy_from_slice(&family.to_be_bytes());
    b[52..54].copy_from_slice(&(1 + ((n >> 8) % 15) as u16).to_be_bytes());
    for (k, off) in [72usize, 76, 80, 84, 88].iter().enumerate() {
        // small, large, negative, zero: any chrony float
        let v = noise_next();
        let bits = match (v >> 60) & 3 {
            0 => 0u32,
            1 => float_bits(((v >> 8) as i64 % (1 << 20)) - (1 << 19), -10 + k as i32),
            2 => (v >> 16) as u32,
            _ => float_bits(1 << 23, 40),
        };
        b[*off..*off + 4].copy_from_slice(&bits.to_be_bytes());
    }
}

/// Wire bytes of a Tracking reply for this report, echoing `sequence`.
pub fn reply_bytes(r: &Report, sequence: u32) -> Vec<u8> {
    let mut b = template(0.0);
    assert_eq!(b.len(), REPLY_LEN, "unexpected tracking reply length");
    add_noise(&mut b);
    b[16..20].copy_from_slice(&sequence.to_be_bytes());
    b[OFF_REFID..OFF_REFID + 4].copy_from_slice(&r.ref_id.to_be_bytes());
    b[OFF_LEAP..OFF_LEAP + 2].copy_from_slice(&r.leap.to_be_bytes());
    let secs = r.ref_time_ns.div_euclid(1_000_000_000) as i64;
    let nsecs = r.ref_time_ns.rem_euclid(1_000_000_000) as u32;
    b[OFF_REFTIME..OFF_REFTIME + 4].copy_from_slice(&((secs >> 32) as i32).to_be_bytes());
    b[OFF_REFTIME + 4..OFF_REFTIME + 8].copy_from_slice(&((secs & 0xffff_ffff) as u32).to_be_bytes());
    b[OFF_REFTIME + 8..OFF_REFTIME + 12].copy_from_slice(&nsecs.to_be_bytes());
    b[OFF_CORRECTION..OFF_CORRECTION + 4].copy_from_slice(&r.correction_bits.to_be_bytes());
    b[OFF_ROOT_DELAY..OFF_ROOT_DELAY + 4].copy_from_slice(&r.delay_bits.to_be_bytes());
    b[OFF_ROOT_DISPERSION..OFF_ROOT_DISPERSION + 4].copy_from_slice(&r.dispersion_bits.to_be_bytes());
    b[OFF_INTERVAL..OFF_INTERVAL + 4].copy_from_slice(&r.interval_bits.to_be_bytes());
    b
}

/// The Tracking structure chrony-candm's own deserialiser yields for these wire bytes.
pub fn tracking_of(r: &Report) -> Tracking {
    let bytes = reply_bytes(r, 7);
    let mut slice = &bytes[..];
    let reply = Reply::deserialize(&mut slice).expect("tracking reply deserialises");
    match reply.body {
        ReplyBody::Tracking(t) => t,
        other => panic!("not a tracking reply: {:?}", other),
    }
}

/// Check, once per process, that the hand-placed offsets are the ones chrony-candm uses.
pub fn self_check() {
    let r = Report {
        ref_id: 0x5048_4330,
        leap: 2,
        ref_time_ns: 1_700_000_000_123_456_789,
        correction_bits: float_bits(-3 << 20, 0),
        delay_bits: float_bits(1 << 23, 1),
        dispersion_bits: float_bits(5 << 20, -3),
        interval_bits: bits_of_f64(16.0),
    };
    let t = tracking_of(&r);
    assert_eq!(t.ref_id, 0x5048_4330);
    assert_eq!(t.leap_status, 2);
    assert_eq!(t.ref_time, UNIX_EPOCH + Duration::new(1_700_000_000, 123_456_789));
    assert_eq!(f64::from(t.current_correction), f64_of_bits(r.correction_bits));
    assert_eq!(f64::from(t.current_correction), -3.0 * 2f64.powi(20 - 25));
    assert_eq!(f64::from(t.root_delay), 2f64.powi(23 + 1 - 25));
    assert_eq!(f64::from(t.root_dispersion), 5.0 * 2f64.powi(20 - 3 - 25));
    assert_eq!(f64::from(t.last_update_interval), 16.0);
    let _ = SystemTime::now();
}

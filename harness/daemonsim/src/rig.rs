//! The daemon's shm-writer thread (real process_messages / ShmUpdater / FSM) over a tee sink: every
//! record handed to the sink is logged and written through the real ShmWriter to a real file.

use std::path::{Path, PathBuf};
use std::sync::mpsc::{channel, Receiver, RecvTimeoutError, Sender};
use std::sync::{Arc, Mutex};
use std::time::Duration;

use clock_bound_d::channels::{new_channel_web, DispatchBox};
use clock_bound_d::thread_manager::Context;
use clock_bound_d::verif_shm_writer::process_messages_with;
use clock_bound_d::{ChannelId, Message};
use clock_bound_shm::{ClockErrorBound, ShmReader, ShmWrite, ShmWriter};

#[repr(C)]
#[derive(Debug, Clone, Copy, PartialEq, Eq)]
pub struct Raw {
    pub as_of: (i64, i64),
    pub void_after: (i64, i64),
    pub bound: i64,
    pub drift: u32,
    pub reserved: u32,
    pub status: i32,
}

pub fn raw_of(ceb: &ClockErrorBound) -> Raw {
    let p = ceb as *const ClockErrorBound as *const u8;
    unsafe {
        Raw {
            as_of: ((p as *const i64).read_unaligned(), (p.add(8) as *const i64).read_unaligned()),
            void_after: ((p.add(16) as *const i64).read_unaligned(), (p.add(24) as *const i64).read_unaligned()),
            bound: (p.add(32) as *const i64).read_unaligned(),
            drift: (p.add(40) as *const u32).read_unaligned(),
            reserved: (p.add(44) as *const u32).read_unaligned(),
            status: (p.add(48) as *const i32).read_unaligned(),
        }
    }
}

struct Tee {
    inner: ShmWriter,
    log: Arc<Mutex<Vec<Raw>>>,
    notify: Sender<()>,
}

impl ShmWrite for Tee {
    fn write(&mut self, ceb: &ClockErrorBound) {
        self.inner.write(ceb);
        self.log.lock().unwrap().push(raw_of(ceb));
        let _ = self.notify.send(());
    }
}

pub struct Daemon {
    pub path: PathBuf,
    pub dbox: DispatchBox<ChannelId, Message>,
    pub log: Arc<Mutex<Vec<Raw>>>,
    notify: Receiver<()>,
    handle: Option<std::thread::JoinHandle<()>>,
    _main_mbox: Receiver<Message>,
    pub sent: u64,
    /// No tee: publications are detected through the generation field of the file.
    plain: bool,
    gen_before_send: u16,
}

pub enum Wait {
    Published,
    /// The message was consumed (the loop has exited) without a publication.
    NotPublished,
    Inconclusive,
}

impl Daemon {
    /// Start the writer side of a daemon incarnation on `path` (real ShmWriter::new).
    pub fn start(path: &Path, max_drift_ppb: u32, virtual_time: bool) -> Daemon {
        let (mut mailbox, dbox) = new_channel_web::<ChannelId, Message>(vec![ChannelId::ClockErrorBoundPoller, ChannelId::MainThread, ChannelId::ShmWriter]);
        let mbox = mailbox.get_mailbox(&ChannelId::ShmWriter).unwrap();
        let main_mbox = mailbox.get_mailbox(&ChannelId::MainThread).unwrap();
        let ctx = Context { channel_id: ChannelId::ShmWriter, mbox, dbox: dbox.clone() };
        let log = Arc::new(Mutex::new(Vec::new()));
        let (tx, rx) = channel();
        let (ready_tx, ready_rx) = channel();
        let (log2, p2) = (log.clone(), path.to_path_buf());
        let handle = std::thread::spawn(move || {
            vworld::clock::set_thread_virtual(virtual_time);
            // As the daemon does: the writer is created by the thread that uses it.
            let writer = ShmWriter::new(&p2).expect("ShmWriter::new");
            vworld::close_fds_pointing_to(&p2, &[]);
            let tee = Tee { inner: writer, log: log2, notify: tx };
            let _ = ready_tx.send(());
            process_messages_with(ctx, tee, max_drift_ppb);
        });
        ready_rx.recv_timeout(Duration::from_secs(30)).expect("shm writer thread start");
        Daemon { path: path.to_path_buf(), dbox, log, notify: rx, handle: Some(handle), _main_mbox: main_mbox, sent: 0, plain: false, gen_before_send: 0 }
    }

    /// The same with the real ShmWriter itself as the sink (no tee in between: whatever the writer
    /// thread does with its writer, beyond write(), happens for real); observe through the file.
    pub fn start_plain(path: &Path, max_drift_ppb: u32) -> Daemon {
        let (mut mailbox, dbox) = new_channel_web::<ChannelId, Message>(vec![ChannelId::ClockErrorBoundPoller, ChannelId::MainThread, ChannelId::ShmWriter]);
        let mbox = mailbox.get_mailbox(&ChannelId::ShmWriter).unwrap();
        let main_mbox = mailbox.get_mailbox(&ChannelId::MainThread).unwrap();
        let ctx = Context { channel_id: ChannelId::ShmWriter, mbox, dbox: dbox.clone() };
        let log = Arc::new(Mutex::new(Vec::new()));
        let (_tx, rx) = channel();
        let (ready_tx, ready_rx) = channel();
        let p2 = path.to_path_buf();
        let handle = std::thread::spawn(move || {
            vworld::clock::set_thread_virtual(true);
            let writer = ShmWriter::new(&p2).expect("ShmWriter::new");
            vworld::close_fds_pointing_to(&p2, &[]);
            let _ = ready_tx.send(());
            process_messages_with(ctx, writer, max_drift_ppb);
        });
        ready_rx.recv_timeout(Duration::from_secs(30)).expect("shm writer thread start");
        Daemon { path: path.to_path_buf(), dbox, log, notify: rx, handle: Some(handle), _main_mbox: main_mbox, sent: 0, plain: true, gen_before_send: 0 }
    }

    /// The daemon's own entry point of the writer thread, `shm_writer::run()`, on the real segment
    /// path (needs the private /run of vlib/sandbox.py): nothing of the start-up code is bypassed.
    pub fn start_real_run(max_drift_ppb: u32) -> Daemon {
        let path = Path::new(REAL_SHM_PATH);
        std::fs::create_dir_all(path.parent().unwrap()).expect("create /var/run/clockbound (private /run?)");
        let (mut mailbox, dbox) = new_channel_web::<ChannelId, Message>(vec![ChannelId::ClockErrorBoundPoller, ChannelId::MainThread, ChannelId::ShmWriter]);
        let mbox = mailbox.get_mailbox(&ChannelId::ShmWriter).unwrap();
        let main_mbox = mailbox.get_mailbox(&ChannelId::MainThread).unwrap();
        let ctx = Context { channel_id: ChannelId::ShmWriter, mbox, dbox: dbox.clone() };
        let log = Arc::new(Mutex::new(Vec::new()));
        let (_tx, rx) = channel();
        let handle = std::thread::spawn(move || {
            vworld::clock::set_thread_virtual(true);
            clock_bound_d::verif_shm_writer::run_real(ctx, max_drift_ppb);
        });
        // run() creates the writer itself: wait until the file is there (or the thread is gone)
        let t0 = std::time::Instant::now();
        while std::fs::metadata(path).map(|m| m.len() < 72).unwrap_or(true) && !handle.is_finished() && t0.elapsed() < Duration::from_secs(20) {
            std::thread::sleep(Duration::from_micros(200));
        }
        std::thread::sleep(Duration::from_millis(2));
        Daemon { path: path.to_path_buf(), dbox, log, notify: rx, handle: Some(handle), _main_mbox: main_mbox, sent: 0, plain: true, gen_before_send: 0 }
    }

    pub fn send(&mut self, m: Message) {
        self.sent += 1;
        if self.plain {
            self.gen_before_send = generation_of(&self.path).unwrap_or(0);
        }
        self.dbox.send(&ChannelId::ShmWriter, m).expect("send to shm writer");
    }

    /// Wait for the publication caused by the last message.
    pub fn wait_publication(&mut self) -> Wait {
        if self.plain {
            // One message at a time: a completed publication shows as a new even generation.
            let t0 = std::time::Instant::now();
            let mut spins = 0u32;
            loop {
                let g = generation_of(&self.path).unwrap_or(0);
                if g != self.gen_before_send && g % 2 == 0 && g != 0 {
                    if let Ok(r) = read_fresh(&self.path) {
                        self.log.lock().unwrap().push(r);
                        return Wait::Published;
                    }
                }
                spins += 1;
                if spins > 200 {
                    std::thread::sleep(Duration::from_micros(50));
                }
                if t0.elapsed() > Duration::from_secs(10) {
                    break;
                }
            }
            let _ = self.dbox.send(&ChannelId::ShmWriter, Message::ThreadAbort);
            if let Some(h) = self.handle.take() {
                let _ = h.join();
            }
            let g = generation_of(&self.path).unwrap_or(0);
            if g != self.gen_before_send && g % 2 == 0 {
                if let Ok(r) = read_fresh(&self.path) {
                    self.log.lock().unwrap().push(r);
                    return Wait::Published;
                }
            }
            return Wait::NotPublished;
        }
        match self.notify.recv_timeout(Duration::from_secs(10)) {
            Ok(()) => Wait::Published,
            Err(RecvTimeoutError::Timeout) => {
                // Decide: ask the loop to stop; once it has, the message was consumed.
                let _ = self.dbox.send(&ChannelId::ShmWriter, Message::ThreadAbort);
                let h = self.handle.take();
                let (tx, rx) = channel();
                std::thread::spawn(move || {
                    if let Some(h) = h {
                        let _ = h.join();
                    }
                    let _ = tx.send(());
                });
                match rx.recv_timeout(Duration::from_secs(60)) {
                    Ok(()) => match self.notify.try_recv() {
                        Ok(()) => Wait::Published,
                        Err(_) => Wait::NotPublished,
                    },
                    Err(_) => Wait::Inconclusive,
                }
            }
            Err(RecvTimeoutError::Disconnected) => match self.notify.try_recv() {
                Ok(()) => Wait::Published,
                Err(_) => Wait::NotPublished,
            },
        }
    }

    /// Publications signalled so far and not yet consumed by wait_publication().
    pub fn drain_notifications(&mut self) -> u64 {
        let mut n = 0;
        while self.notify.try_recv().is_ok() {
            n += 1;
        }
        n
    }

    pub fn alive(&self) -> bool {
        self.handle.is_some()
    }

    /// Stop this incarnation: ThreadAbort, join, the ShmWriter is dropped (munmap only).
    pub fn stop(&mut self) {
        if let Some(h) = self.handle.take() {
            let _ = self.dbox.send(&ChannelId::ShmWriter, Message::ThreadAbort);
            let _ = h.join();
        }
    }
}

impl Drop for Daemon {
    fn drop(&mut self) {
        self.stop();
    }
}

pub const REAL_SHM_PATH: &str = "/var/run/clockbound/shm";

pub fn read_fresh(path: &Path) -> Result<Raw, String> {
    let c = std::ffi::CString::new(path.to_str().unwrap()).unwrap();
    let mut r = ShmReader::new(&c).map_err(|e| format!("open: {:?}", e))?;
    let snap = r.snapshot().map_err(|e| format!("snapshot: {:?}", e))?;
    Ok(raw_of(snap))
}

pub fn generation_of(path: &Path) -> Option<u16> {
    use std::os::unix::fs::FileExt;
    let f = std::fs::File::open(path).ok()?;
    let mut b = [0u8; 2];
    f.read_at(&mut b, 14).ok()?;
    Some(u16::from_ne_bytes(b))
}

pub fn workdir(tag: &str) -> PathBuf {
    let d = PathBuf::from(format!("/dev/shm/cbverif-d-{}.{}", tag, std::process::id()));
    std::fs::create_dir_all(&d).unwrap();
    d
}

//! Virtual-time world (C01 C12 C13) — see DESIGN.md 3.2.
use crate::Args;
use vworld::serde_json::Value;
use vworld::json;

pub fn run(mode: &str, _a: &Args) -> Value {
    json!({"inconclusive": format!("mode {} not built yet", mode)})
}

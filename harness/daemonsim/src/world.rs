//! The virtual-time world (C01 C12 C13): true time, a drifting system clock, a chronyd whose reports
//! are valid by construction, driving — in lock-step — the real poller loop, the real
//! ShmUpdater/FSM on its own thread, the real ShmWriter on a tmpfs file and real clients.
//!
//! Exact integer arithmetic: time in ns (i128), clock error in units of 1e-9 ns so that
//! 1 ppb x 1 ns is one unit.

use std::collections::BTreeMap;
use std::path::{Path, PathBuf};
use std::sync::{Arc, Mutex};
use std::time::Duration;

use clock_bound_client::{ClockBoundClient, ClockStatus};
use clock_bound_d::channels::new_channel_web;
use clock_bound_d::thread_manager::Context;
use clock_bound_d::verif_chrony_poller::{run_poller_with, ChronyOps};
use clock_bound_d::{ChannelId, Message, PhcInfo};
use chrony_candm::reply::Tracking;
use vworld::serde_json::Value;
use vworld::{clock, json, Rng};

use crate::rig::{workdir, Daemon, Raw, Wait};
use crate::wire::{bits_of_f64, decode_float, float_bits, tracking_of, Report};
use crate::{violation, Args, NS, T0_REAL_S};

const UNIT: i128 = 1_000_000_000; // error units per ns
const ROLE_POLLER: u8 = 1;
const ROLE_WRITER: u8 = 2;
const ROLE_CLIENT: u8 = 3;

thread_local! {
    static ROLE: std::cell::Cell<u8> = const { std::cell::Cell::new(0) };
    /// Seed of the history being run (goes into replay files).
    static HSEED: std::cell::Cell<u64> = const { std::cell::Cell::new(0) };
}

fn hcase(history: &[String]) -> Value {
    json!({"history_seed": HSEED.with(|h| h.get()).to_string(), "history": history})
}

#[derive(Debug, Clone, Copy)]
pub struct ReadEv {
    pub role: u8,
    pub clk: i32,
    /// True time at the read.
    pub t: i128,
    /// Value returned, ns.
    pub value: i128,
}

pub struct World {
    pub t: i128,
    pub t_boot: i128,
    pub err_units: i128,
    pub rate_ppb: i64,
    pub d_ppb: i64,
    pub coarse_tick: i128,
    pub log: Vec<ReadEv>,
    /// Delay injected between the first and the second clock read of a client call (whichever
    /// clocks these are).
    pub client_gap: i128,
    pub client_reads: u32,
    pub keep_log: bool,
    /// Total time spent suspended: CLOCK_BOOTTIME = monotonic + this.
    pub suspended: i128,
}

impl World {
    pub fn advance(&mut self, dt: i128) {
        debug_assert!(dt >= 0);
        self.err_units += self.rate_ppb as i128 * dt;
        self.t += dt;
    }

    pub fn realtime_ns(&self) -> i128 {
        (self.t * UNIT + self.err_units).div_euclid(UNIT)
    }

    pub fn mono_ns(&self) -> i128 {
        self.t - self.t_boot
    }

    fn read(&mut self, clk: i32) -> (i64, i64) {
        let role = ROLE.with(|r| r.get());
        let real = clk == libc::CLOCK_REALTIME || clk == libc::CLOCK_REALTIME_COARSE;
        if role == ROLE_CLIENT {
            self.client_reads += 1;
            if self.client_reads == 2 && self.client_gap > 0 {
                let g = self.client_gap;
                self.client_gap = 0;
                self.advance(g);
            }
        }
        let v = if clk == libc::CLOCK_REALTIME_COARSE {
            // the value of the system clock at the last kernel tick (4 ms)
            let r = self.realtime_ns();
            r - r.rem_euclid(4_000_000)
        } else if real {
            self.realtime_ns()
        } else if clk == libc::CLOCK_BOOTTIME || clk == libc::CLOCK_BOOTTIME_ALARM {
            self.mono_ns() + self.suspended
        } else {
            let m = self.mono_ns();
            if clk == libc::CLOCK_MONOTONIC_COARSE && self.coarse_tick > 0 {
                m - m.rem_euclid(self.coarse_tick)
            } else {
                m
            }
        };
        if self.keep_log {
            self.log.push(ReadEv { role, clk, t: self.t, value: v });
        }
        (v.div_euclid(NS) as i64, v.rem_euclid(NS) as i64)
    }
}

fn install(world: &Arc<Mutex<World>>) {
    let w = world.clone();
    clock::install(Box::new(move |clk| w.lock().unwrap().read(clk)));
}

fn as_role<R>(role: u8, f: impl FnOnce() -> R) -> R {
    let prev = ROLE.with(|r| r.replace(role));
    let r = clock::with_virtual(f);
    ROLE.with(|r| r.set(prev));
    r
}

// ------------------------------------------------------------------------------------ chrony model

#[derive(Debug, Clone)]
pub enum Step {
    /// chronyd answers; the report is built when it samples its state.
    Answer { kind: AnswerKind, request_latency: i128, reply_latency: i128, tight: bool, ref_id: u32, phc_share: u8 },
    Silence,
}

#[derive(Debug, Clone, Copy, PartialEq)]
pub enum AnswerKind {
    Sync,
    Unsync,
    Stale,
    BadLeap,
    Future,
}

/// Encode `v_units` (seconds x 1e18, >= 0) as a chrony float, rounding up or down; exponent kept so
/// that the value is a multiple of 2^-40 s.
fn encode_float(v_units: i128, round_up: bool) -> u32 {
    if v_units <= 0 {
        return 0;
    }
    // value = coef * 2^e2 seconds, coef < 2^24, e2 >= -40
    let mut e2: i32 = -40;
    loop {
        // coef = v / 2^e2 = v_units * 2^-e2 / 1e18
        let num = v_units << ((-e2) as u32);
        let den = UNIT * UNIT;
        let coef = if round_up { (num + den - 1) / den } else { num / den };
        if coef < (1 << 24) {
            return float_bits(coef as i64, e2 + 25);
        }
        e2 += 1;
        if e2 > -1 {
            return float_bits((1 << 24) - 1, 24);
        }
    }
}

/// Value of a chrony float in units of 2^-40 s x 1e18 (i.e. exact as an integer numerator over 2^40).
fn float_units_2p40(bits: u32) -> i128 {
    let (c, e2) = decode_float(bits);
    debug_assert!(e2 >= -40 || c == 0, "float finer than 2^-40 s");
    if c == 0 {
        0
    } else {
        (c as i128 * UNIT * UNIT) << ((40 + e2) as u32)
    }
}

struct Chrony {
    world: Arc<Mutex<World>>,
    step: Arc<Mutex<Option<Step>>>,
    /// Monotonic instant at which the poller last received an answer (maintained by the harness as
    /// the real ClockErrorBoundPoller would); the grace flag is computed from it when asked.
    last_good: Arc<Mutex<i128>>,
    grace_asked_at: Arc<Mutex<Vec<i128>>>,
    rng: Rng,
    /// What chronyd did this iteration: (true time it sampled at, report) for the monitor.
    sampled: Arc<Mutex<Option<(i128, Report, i64)>>>,
    phc_value: i64,
    /// The PHC is configured, readable, and is the reference of this step's report.
    phc_active: bool,
    entered: Arc<Mutex<Option<i128>>>,
}

impl ChronyOps for Chrony {
    fn get_tracking(&mut self) -> Option<Tracking> {
        *self.entered.lock().unwrap() = Some(self.world.lock().unwrap().t);
        let step = self.step.lock().unwrap().clone();
        match step {
            None | Some(Step::Silence) => {
                // Three one-second timeouts go by.
                self.world.lock().unwrap().advance(3 * NS);
                None
            }
            Some(Step::Answer { kind, request_latency, reply_latency, tight, ref_id, phc_share }) => {
                let mut w = self.world.lock().unwrap();
                w.advance(request_latency);
                // chronyd samples its state now.
                let e = w.err_units.abs(); // error in 1e-18 s
                let rt = w.realtime_ns();
                // Part of the error is attributed to the PHC when it is the reference.
                let phc_units = (self.phc_value as i128) * UNIT;
                let e_for_ntp = if phc_share > 0 && self.phc_active { (e - phc_units * phc_share as i128 / 4).max(0) } else { e };
                let budget = if tight { e_for_ntp } else { e_for_ntp + self.rng.magnitude(58) as i128 % (5 * UNIT * UNIT / 1000) };
                // Split the budget.
                let a = budget * self.rng.below(101) as i128 / 100;
                let b = (budget - a) * self.rng.below(101) as i128 / 100;
                let c = budget - a - b;
                let mut off = encode_float(a, false);
                let delay = encode_float(2 * b, false);
                let mut disp = encode_float(c, true);
                // Make the report valid on the decoded wire values, exactly.
                let need = e_for_ntp << 40;
                loop {
                    let have = float_units_2p40(off) + float_units_2p40(delay) / 2 + float_units_2p40(disp);
                    if have >= need {
                        break;
                    }
                    let (c0, e0) = decode_float(disp);
                    disp = if c0 + 1 < (1 << 24) { float_bits(c0 + 1, e0 + 25) } else { float_bits((c0 + 1) / 2 + 1, e0 + 26) };
                    if disp == 0 {
                        disp = float_bits(1, -15);
                    }
                }
                if self.rng.chance(1, 2) && off != 0 {
                    // negative offset: same magnitude
                    let (c0, e0) = decode_float(off);
                    off = float_bits(-c0, e0 + 25);
                }
                let (leap, age_ns) = match kind {
                    AnswerKind::Sync => (self.rng.below(3) as u16, self.rng.range(0, 100_000_000_000) as i128),
                    AnswerKind::Unsync => (3, self.rng.range(0, 100_000_000_000) as i128),
                    AnswerKind::Stale => (self.rng.below(3) as u16, 200 * NS + self.rng.range(0, 1_000_000_000_000) as i128),
                    AnswerKind::BadLeap => (4 + self.rng.below(60000) as u16, 0),
                    AnswerKind::Future => (0, -(1 + self.rng.range(0, 5_000_000_000) as i128)),
                };
                let report = Report { ref_id, leap, ref_time_ns: rt - age_ns, correction_bits: off, delay_bits: delay, dispersion_bits: disp, interval_bits: bits_of_f64(16.0) };
                *self.sampled.lock().unwrap() = Some((w.t, report, self.phc_value));
                w.advance(reply_latency);
                // The real poller notes the instant the answer was received.
                *self.last_good.lock().unwrap() = w.mono_ns();
                drop(w);
                Some(tracking_of(&report))
            }
        }
    }

    fn is_within_grace_period(&self) -> bool {
        // As the real poller: elapsed since the last answer, evaluated at the instant of the call.
        let now = self.world.lock().unwrap().mono_ns();
        self.grace_asked_at.lock().unwrap().push(now);
        now - *self.last_good.lock().unwrap() < 5 * NS
    }
}

// ------------------------------------------------------------------------------------ the run

struct Sim {
    world: Arc<Mutex<World>>,
    dir: PathBuf,
    path: PathBuf,
    daemon: Option<Daemon>,
    drift_ppb: u32,
    step: Arc<Mutex<Option<Step>>>,
    last_good: Arc<Mutex<i128>>,
    grace_asked_at: Arc<Mutex<Vec<i128>>>,
    sampled: Arc<Mutex<Option<(i128, Report, i64)>>>,
    entered: Arc<Mutex<Option<i128>>>,
    phc: Option<PhcInfo>,
    phc_value: i64,
    /// Virtual monotonic instant of the last answer received by this daemon incarnation.
    last_good_mono: i128,
    client: Option<ClockBoundClient>,
    /// Last published record (from the sink).
    last_record: Option<Raw>,
    have_sync: bool,
}

#[derive(Default)]
struct Obs {
    answers_by_status: BTreeMap<String, u64>,
    outcomes_by_kind: BTreeMap<String, u64>,
    adversarial_instants: BTreeMap<String, u64>,
    min_margin_ns: Option<i128>,
    trusted_in_sync_phase: u64,
    answers_in_sync_phase: u64,
    restarts: u64,
    reboots: u64,
    suspends: u64,
    polls_with_short_phc_reads: u64,
    answers_without_a_system_clock_read: u64,
    polls: u64,
    order_checks: u64,
    gap_checks: u64,
    msg_checks: u64,
    client_errors: BTreeMap<String, u64>,
}

fn status_num(s: ClockStatus) -> i32 {
    match s {
        ClockStatus::Unknown => 0,
        ClockStatus::Synchronized => 1,
        ClockStatus::FreeRunning => 2,
    }
}

impl Sim {
    fn now_t(&self) -> i128 {
        self.world.lock().unwrap().t
    }

    fn start_daemon(&mut self) {
        // (the real ShmWriter itself is the sink: whatever the daemon does with its writer at
        // start-up or later happens for real; publications are seen through the file)
        self.daemon = Some(Daemon::start_plain(&self.path, self.drift_ppb));
        // ClockErrorBoundPoller::default(): the last answer is 5 s in the past.
        self.last_good_mono = self.world.lock().unwrap().mono_ns() - 5 * NS;
        *self.last_good.lock().unwrap() = self.last_good_mono;
        self.have_sync = false;
        self.last_record = None;
    }

    /// One client call; checks containment (C01) and the read order (C12). `tag` names the instant.
    fn query(&mut self, a: &Args, prop: &str, fresh: bool, tag: &str, gap: i128, obs: &mut Obs, violations: &mut Vec<Value>, history: &[String], sync_phase: bool) -> Option<(i32, i128)> {
        let mut w = self.world.lock().unwrap();
        w.client_gap = gap;
        w.client_reads = 0;
        w.keep_log = true;
        let log_from = w.log.len();
        let tol_tick = w.coarse_tick;
        let d = w.d_ppb as i128;
        drop(w);
        let path = self.path.clone();
        if fresh || self.client.is_none() {
            let c = as_role(ROLE_CLIENT, || ClockBoundClient::new_with_path(path.to_str().unwrap()));
            match c {
                Ok(c) => {
                    if !fresh {
                        self.client = Some(c);
                    } else {
                        // use a throw-away client
                        let mut c = c;
                        let r = as_role(ROLE_CLIENT, || c.now());
                        return self.judge(a, prop, r, log_from, tag, tol_tick, d, obs, violations, history, sync_phase);
                    }
                }
                Err(e) => {
                    *obs.client_errors.entry(format!("open-{:?}", e.kind)).or_insert(0) += 1;
                    self.world.lock().unwrap().client_gap = 0;
                    return None;
                }
            }
        }
        let r = {
            let c = self.client.as_mut().unwrap();
            as_role(ROLE_CLIENT, || c.now())
        };
        self.judge(a, prop, r, log_from, tag, tol_tick, d, obs, violations, history, sync_phase)
    }

    #[allow(clippy::too_many_arguments)]
    fn judge(&mut self, a: &Args, prop: &str, r: Result<clock_bound_client::ClockBoundNowResult, clock_bound_client::ClockBoundError>, log_from: usize, tag: &str, tick: i128, d: i128, obs: &mut Obs, violations: &mut Vec<Value>, history: &[String], sync_phase: bool) -> Option<(i32, i128)> {
        let mut w = self.world.lock().unwrap();
        w.client_gap = 0;
        let reads: Vec<ReadEv> = w.log[log_from..].iter().filter(|e| e.role == ROLE_CLIENT).cloned().collect();
        w.log.truncate(0);
        drop(w);
        *obs.adversarial_instants.entry(tag.to_string()).or_insert(0) += 1;
        if sync_phase {
            obs.answers_in_sync_phase += 1;
        }
        let r = match r {
            Ok(r) => r,
            Err(e) => {
                *obs.client_errors.entry(format!("{:?}", e.kind)).or_insert(0) += 1;
                return None;
            }
        };
        // C12: the realtime clock is read first, the monotonic clock second, nothing else.
        obs.order_checks += 1;
        // The monotonic reading must follow the realtime reading (how many reads there are is free).
        let is_real = |c: i32| c == libc::CLOCK_REALTIME || c == libc::CLOCK_REALTIME_COARSE;
        let last_real = reads.iter().rposition(|e| is_real(e.clk));
        let last_mono = reads.iter().rposition(|e| !is_real(e.clk));
        let order_ok = matches!((last_real, last_mono), (Some(r), Some(m)) if r < m);
        if !order_ok && (prop == "C12") {
            violation(violations, a, "C12", "client-read-order", format!("now() read the clocks in the order {:?} (the monotonic clock must be read after CLOCK_REALTIME)", reads.iter().map(|e| e.clk).collect::<Vec<_>>()), hcase(history));
        }
        // the instant the client read its system clock (whichever realtime clock id it used)
        let t_read = reads.iter().find(|e| is_real(e.clk)).map(|e| e.t);
        let st = status_num(r.clock_status);
        *obs.answers_by_status.entry(format!("{}", st)).or_insert(0) += 1;
        let e_ns = r.earliest.tv_sec() as i128 * NS + r.earliest.tv_nsec() as i128;
        let l_ns = r.latest.tv_sec() as i128 * NS + r.latest.tv_nsec() as i128;
        let half = (l_ns - e_ns) / 2;
        if st == 0 {
            return Some((st, half));
        }
        if sync_phase {
            obs.trusted_in_sync_phase += 1;
        }
        let t_read = match t_read {
            Some(t) => t,
            None => {
                obs.answers_without_a_system_clock_read += 1;
                return Some((st, half));
            }
        };
        let tol = 2 + (d * tick + UNIT - 1) / UNIT;
        let margin = (t_read - e_ns).min(l_ns - t_read);
        obs.min_margin_ns = Some(obs.min_margin_ns.map_or(margin, |m| m.min(margin)));
        if margin < -tol {
            let rec = self.last_record;
            violation(violations, a, prop, if prop == "C12" { "delay-breaks-containment" } else { "true-time-outside-interval" },
                      format!("true time {} ns lies {} ns outside [{}, {}] returned with status {} at instant '{}' (published record {:?}; clock error {} ns)", t_read, -margin, e_ns, l_ns, st, tag, rec, self.world.lock().unwrap().err_units / UNIT),
                      hcase(history));
        }
        Some((st, half))
    }

    /// One iteration of the real poller loop, then the message through the real writer thread.
    #[allow(clippy::too_many_arguments)]
    fn poll(&mut self, a: &Args, prop: &str, step: Step, rng: &mut Rng, obs: &mut Obs, violations: &mut Vec<Value>, history: &[String]) -> Result<(), String> {
        obs.polls += 1;
        // The PHC error-bound attribute sometimes arrives in pieces (short reads of 1-3 bytes).
        if let Some(phc) = self.phc.as_ref() {
            let n = if rng.chance(1, 6) { 1 + rng.below(3) as usize } else { 0 };
            vworld::meter::short_reads_of(phc.sysfs_error_bound_path.to_str().unwrap(), n);
            if n > 0 {
                obs.polls_with_short_phc_reads += 1;
            }
        }
        let (mut mailbox, dbox) = new_channel_web::<ChannelId, Message>(vec![ChannelId::ClockErrorBoundPoller, ChannelId::ShmWriter]);
        let pmbox = mailbox.get_mailbox(&ChannelId::ClockErrorBoundPoller).unwrap();
        let smbox = mailbox.get_mailbox(&ChannelId::ShmWriter).unwrap();
        dbox.send(&ChannelId::ClockErrorBoundPoller, Message::ThreadAbort).unwrap();
        let ctx = Context { channel_id: ChannelId::ClockErrorBoundPoller, mbox: pmbox, dbox: dbox.clone() };
        *self.step.lock().unwrap() = Some(step.clone());
        *self.sampled.lock().unwrap() = None;
        *self.entered.lock().unwrap() = None;
        let silence = matches!(step, Step::Silence);
        self.grace_asked_at.lock().unwrap().clear();
        let phc_active = match (&self.phc, &step) {
            (Some(p), Step::Answer { ref_id, .. }) => p.refid == *ref_id && p.sysfs_error_bound_path.exists(),
            _ => false,
        };
        let chrony = Chrony { world: self.world.clone(), step: self.step.clone(), last_good: self.last_good.clone(), grace_asked_at: self.grace_asked_at.clone(), rng: rng.fork(7), sampled: self.sampled.clone(), phc_value: self.phc_value, phc_active, entered: self.entered.clone() };
        {
            let mut w = self.world.lock().unwrap();
            w.keep_log = true;
            w.log.truncate(0);
        }
        let phc = self.phc.clone();
        as_role(ROLE_POLLER, || run_poller_with(ctx, chrony, phc, Duration::from_millis(1)));
        let reads: Vec<ReadEv> = {
            let mut w = self.world.lock().unwrap();
            let v = w.log.iter().filter(|e| e.role == ROLE_POLLER).cloned().collect();
            w.log.truncate(0);
            v
        };
        let msg = match smbox.try_recv() {
            Ok(m) => m,
            Err(_) => {
                if prop == "C13" || prop == "C01" {
                    violation(violations, a, prop, "no-message", "a poller iteration delivered no message to the shm writer".to_string(), hcase(history));
                }
                return Ok(());
            }
        };
        let sampled = *self.sampled.lock().unwrap();
        let entered = *self.entered.lock().unwrap();
        let t_boot = self.world.lock().unwrap().t_boot;
        // ---- C12: as_of is a monotonic reading taken before the request was issued.
        if let Message::ClockErrorBoundData((_, _, as_of)) = &msg {
            obs.msg_checks += 1;
            let as_of_ns = as_of.tv_sec as i128 * NS + as_of.tv_nsec as i128;
            let came_from_read = reads.iter().any(|e| e.clk != libc::CLOCK_REALTIME && e.value == as_of_ns && entered.map_or(false, |t| e.t <= t));
            let before_sample = sampled.map_or(true, |(t, _, _)| as_of_ns <= t - t_boot);
            if prop == "C12" && (!came_from_read || !before_sample) {
                violation(violations, a, "C12", "as-of-not-before-request", format!("as_of {} ns: monotonic readings by the poller before the request was issued {:?}; chronyd sampled at monotonic {}", as_of_ns, reads.iter().filter(|e| entered.map_or(false, |t| e.t <= t)).map(|e| e.value).collect::<Vec<_>>(), sampled.map(|(t, _, _)| t - t_boot).unwrap_or(-1)), hcase(history));
            }
        }
        // ---- C13: the message class follows the model. The poller has to judge the grace period
        // once the query is over (three timeouts later for a silence), against the last answer.
        let mono_after = self.world.lock().unwrap().mono_ns();
        let grace_flag = if silence { mono_after - self.last_good_mono < 5 * NS } else { true };
        let expected_kind = match &step {
            Step::Silence => if grace_flag { "ChronyNotRespondingGracePeriod" } else { "ChronyNotResponding" },
            Step::Answer { ref_id, .. } => match &self.phc {
                Some(p) if p.refid == *ref_id => {
                    if std::fs::read_to_string(&p.sysfs_error_bound_path).is_ok() { "ClockErrorBoundData" } else if grace_flag { "PhcErrorBoundRetrievalFailedGracePeriod" } else { "PhcErrorBoundRetrievalFailed" }
                }
                _ => "ClockErrorBoundData",
            },
        };
        let got_kind = match &msg {
            Message::ClockErrorBoundData(_) => "ClockErrorBoundData",
            Message::ChronyNotRespondingGracePeriod => "ChronyNotRespondingGracePeriod",
            Message::ChronyNotResponding => "ChronyNotResponding",
            Message::PhcErrorBoundRetrievalFailedGracePeriod => "PhcErrorBoundRetrievalFailedGracePeriod",
            Message::PhcErrorBoundRetrievalFailed => "PhcErrorBoundRetrievalFailed",
            _ => "other",
        };
        *obs.outcomes_by_kind.entry(format!("{}{}", got_kind, match &step { Step::Answer { kind, .. } => format!("/{:?}", kind), _ => String::new() })).or_insert(0) += 1;
        if prop == "C13" {
            if got_kind != expected_kind {
                violation(violations, a, "C13", "message-class", format!("poll outcome {:?} (grace flag {}, phc configured {}): message {} expected {}", step, grace_flag, self.phc.is_some(), got_kind, expected_kind), hcase(history));
            }
            if let (Message::ClockErrorBoundData((tr, phc_bound, _)), Step::Answer { ref_id, .. }) = (&msg, &step) {
                let want = match &self.phc { Some(p) if p.refid == *ref_id => self.phc_value, _ => 0 };
                if *phc_bound != want || tr.ref_id != *ref_id {
                    violation(violations, a, "C13", "phc-bound", format!("report ref id {:#x}, configured PHC {:?} with file value {}: message carries PHC bound {} expected {}", ref_id, self.phc.as_ref().map(|p| p.refid), self.phc_value, phc_bound, want), hcase(history));
                }
            }
        }
        if !silence {
            // The real poller notes the time an answer was received.
            self.last_good_mono = self.world.lock().unwrap().mono_ns();
            *self.last_good.lock().unwrap() = self.last_good_mono;
        }
        // ---- through the writer thread
        let before = self.last_record;
        let is_data = matches!(msg, Message::ClockErrorBoundData(_));
        let d = self.daemon.as_mut().ok_or("no daemon")?;
        d.send(msg);
        match d.wait_publication() {
            Wait::Published => {}
            Wait::NotPublished => {
                violation(violations, a, prop, "no-publication", "a poll outcome did not result in a publication".to_string(), hcase(history));
                return Ok(());
            }
            Wait::Inconclusive => return Err("writer thread did not answer".into()),
        }
        let rec = *d.log.lock().unwrap().last().unwrap();
        self.last_record = Some(rec);
        if let (Step::Answer { kind: AnswerKind::Sync, .. }, true) = (&step, is_data) {
            self.have_sync = true;
        }
        if prop == "C13" && !is_data {
            if let Some(b) = before {
                if (b.bound, b.as_of) != (rec.bound, rec.as_of) {
                    violation(violations, a, "C13", "measurement-changed-without-report", format!("after {}: published (bound, as_of) went from ({}, {:?}) to ({}, {:?})", got_kind, b.bound, b.as_of, rec.bound, rec.as_of), hcase(history));
                }
            }
        }
        Ok(())
    }
}

fn random_step(rng: &mut Rng, focus: &str, phc_refid: u32) -> Step {
    let lat = |rng: &mut Rng, heavy: bool| -> i128 {
        match rng.below(if heavy { 4 } else { 8 }) {
            0 => rng.range(1_000, 2_000_000_000) as i128,
            1 => rng.range(0, 30_000_000_000) as i128 * if heavy { 1 } else { 0 },
            _ => rng.range(0, 5_000_000) as i128,
        }
    };
    let heavy = focus == "c12";
    let p = rng.below(100);
    let kind = if p < 62 {
        AnswerKind::Sync
    } else if p < 70 {
        AnswerKind::Unsync
    } else if p < 76 {
        AnswerKind::Stale
    } else if p < 80 {
        AnswerKind::BadLeap
    } else if p < 84 {
        AnswerKind::Future
    } else {
        return Step::Silence;
    };
    // Reference id of the report: the configured one, or one that merely resembles it.
    let ref_id = match rng.below(12) {
        0 | 1 => phc_refid,
        2 => phc_refid ^ (1 << rng.below(32)),
        3 => 0,
        4 => phc_refid << 8,
        5 => phc_refid >> 8,
        6 => phc_refid.swap_bytes(),
        7 => phc_refid.rotate_left(8 * (1 + rng.below(3) as u32)),
        8 => phc_refid & 0x00ff_ffff,
        _ => if focus == "c13" { phc_refid } else { rng.next() as u32 },
    };
    Step::Answer { kind, request_latency: lat(rng, heavy), reply_latency: lat(rng, heavy), tight: rng.chance(1, 2), ref_id, phc_share: rng.below(5) as u8 }
}

fn one_history(a: &Args, mode: &str, seed: u64, obs: &mut Obs, violations: &mut Vec<Value>) -> Result<Vec<String>, String> {
    let prop: &str = match mode { "c12" => "C12", "c13" => "C13", _ => "C01" };
    HSEED.with(|h| h.set(seed));
    let mut rng = Rng::new(seed);
    let drift_ppm = *rng.pick(&[1u32, 50, 500]);
    let d_ppb = drift_ppm as i64 * 1000;
    let uptime_s = *rng.pick(&[3i128, 100, 999, 1_000_000]);
    let t0 = T0_REAL_S as i128 * NS + rng.range(0, 999_999_999) as i128;
    let err0 = match rng.below(4) {
        0 => 0,
        1 => rng.range(-2_000_000_000, 2_000_000_000) as i128 * UNIT,
        _ => rng.range(-50_000_000, 50_000_000) as i128 * UNIT,
    };
    let tick = if mode == "c01" && arg_tick(a) > 0 && rng.chance(1, 3) { arg_tick(a) } else { 0 };
    let world = Arc::new(Mutex::new(World { t: t0, t_boot: t0 - uptime_s * NS - rng.range(0, 999_999_999) as i128, err_units: err0, rate_ppb: 0, d_ppb, coarse_tick: tick, log: Vec::new(), client_gap: 0, client_reads: 0, keep_log: false, suspended: 0 }));
    install(&world);
    let dir = workdir(&format!("w{}", a.shard));
    let path = dir.join("shm");
    let _ = std::fs::remove_file(&path);
    // "PHC0", and ids with NUL bytes as `refid_to_u32("PHC")` or chronyd's left-justified form give.
    let phc_refid: u32 = *rng.pick(&[0x5048_4330u32, 0x5048_4330, 0x0050_4843, 0x5048_4300, 0x0000_0050, 0x5000_0000, 0x4750_5300]);
    let phc_path = dir.join("phc_error_bound");
    let with_phc = rng.chance(1, 2) || mode == "c13";
    let phc_value: i64 = *rng.pick(&[0i64, 1, 12345, 3_000_000]);
    if with_phc {
        std::fs::write(&phc_path, format!("{}\n", phc_value)).unwrap();
    }
    let mut sim = Sim {
        world: world.clone(), dir: dir.clone(), path: path.clone(), daemon: None, drift_ppb: d_ppb as u32,
        step: Arc::new(Mutex::new(None)), last_good: Arc::new(Mutex::new(0)), grace_asked_at: Arc::new(Mutex::new(Vec::new())), sampled: Arc::new(Mutex::new(None)), entered: Arc::new(Mutex::new(None)),
        phc: if with_phc { Some(PhcInfo { refid: phc_refid, sysfs_error_bound_path: phc_path.clone() }) } else { None },
        phc_value: if with_phc { phc_value } else { 0 },
        last_good_mono: 0, client: None, last_record: None, have_sync: false,
    };
    sim.start_daemon();
    let mut history: Vec<String> = vec![format!("drift {} ppm, uptime at start {} s, initial clock error {} ns, coarse tick {} ns, phc {}", drift_ppm, uptime_s, err0 / UNIT, tick, if with_phc { phc_value } else { -1 })];
    let polls = 20 + rng.below(if mode == "c01" { 180 } else { 60 });
    let mut outage_left = 0u64;
    let mut phc_broken = false;
    for n in 0..polls {
        // --- the oscillator: piecewise-constant rate within the configured maximum
        {
            let mut w = world.lock().unwrap();
            let sign = if w.err_units >= 0 { 1 } else { -1 };
            w.rate_ppb = match rng.below(5) {
                0 | 1 => sign * d_ppb,
                2 => -sign * d_ppb,
                3 => 0,
                _ => rng.range(-d_ppb, d_ppb),
            };
        }
        // --- time passes until the next poll (one second, sometimes much more)
        let gap = match rng.below(40) {
            0 => rng.range(1, 1_200) as i128 * NS,
            1 => rng.range(1, 10) as i128 * NS,
            _ => NS + rng.range(0, 50_000_000) as i128,
        };
        // client queries spread over the gap, including adversarial instants
        let sync_phase = sim.have_sync && outage_left == 0;
        let nq = 1 + rng.below(3);
        let mut spent = 0i128;
        for q in 0..nq {
            let (dt, tag): (i128, &str) = if q == 0 && rng.chance(1, 2) {
                (0, "right-after-publication")
            } else if let (Some(rec), true) = (sim.last_record, rng.chance(1, 3)) {
                let w = world.lock().unwrap();
                let mono = w.mono_ns();
                drop(w);
                let as_of = rec.as_of.0 as i128 * NS + rec.as_of.1 as i128;
                let va = rec.void_after.0 as i128 * NS;
                let target = match rng.below(4) { 0 => as_of + 5 * NS - 1, 1 => as_of + 5 * NS, 2 => va - 1, _ => va };
                if target > mono && target - mono < gap - spent { (target - mono, "status-threshold") } else { (rng.range(0, (gap - spent).max(1) as i64 - 1) as i128, "random") }
            } else {
                (rng.range(0, ((gap - spent).max(1)) as i64 - 1) as i128, "random")
            };
            world.lock().unwrap().advance(dt);
            spent += dt;
            // Time passing between the client's two clock reads: usually nothing or microseconds,
            // now and then a preemption of up to 2 s (always in c12 mode).
            let cgap = if mode == "c12" || rng.chance(1, 16) { rng.range(0, 2_000_000_000) as i128 } else if rng.chance(1, 4) { rng.range(0, 100_000) as i128 } else { 0 };
            let fresh = rng.chance(1, 5);
            if mode == "c12" && cgap > 0 && !fresh {
                // Same instant without the delay first: the delay may only widen the interval.
                let h0 = sim.query(a, prop, false, "no-gap", 0, obs, violations, &history, sync_phase);
                let h1 = sim.query(a, prop, false, "gap-between-reads", cgap, obs, violations, &history, sync_phase);
                spent += cgap;
                if let (Some((s0, h0)), Some((s1, h1))) = (h0, h1) {
                    obs.gap_checks += 1;
                    if s0 != 0 && s1 != 0 && h1 < h0 {
                        violation(violations, a, "C12", "delay-shrinks-interval", format!("half-width {} ns with a {} ns delay between the two clock reads, {} ns without", h1, cgap, h0), hcase(&history));
                    }
                }
            } else {
                sim.query(a, prop, fresh, tag, cgap, obs, violations, &history, sync_phase);
                spent += cgap;
            }
        }
        if gap > spent {
            world.lock().unwrap().advance(gap - spent);
        }
        // --- daemon restart now and then
        if rng.chance(1, 60) {
            obs.restarts += 1;
            if let Some(mut d) = sim.daemon.take() {
                d.stop();
            }
            world.lock().unwrap().advance(rng.range(0, 20_000_000_000) as i128);
            // Half of the time the daemon did not stop cleanly but was killed inside an update: the
            // generation is left odd and the record area holds the first words of a newer record.
            if rng.chance(1, 2) {
                let mono = world.lock().unwrap().mono_ns();
                if tear_segment(&sim.path, &mut rng, mono) {
                    history.push(format!("#{} daemon killed inside an update (segment left torn, generation odd)", n));
                    sim.query(a, prop, true, "daemon-killed-mid-update-new-client", 0, obs, violations, &history, false);
                }
            }
            sim.query(a, prop, rng.chance(1, 2), "daemon-down", 0, obs, violations, &history, false);
            sim.start_daemon();
            history.push(format!("#{} daemon restart at mono {}", n, world.lock().unwrap().mono_ns()));
            sim.query(a, prop, rng.chance(1, 2), "first-instant-after-restart", 0, obs, violations, &history, false);
        }
        // --- the machine reboots now and then, and the segment file survives it (a /var/run that
        // is not a tmpfs): CLOCK_MONOTONIC starts again near zero, the wall clock is set from the
        // RTC (seconds off), chronyd has not synchronised yet. Clients come back once the new
        // daemon has published for the first time.
        let mut forced: Option<Step> = None;
        if mode == "c01" && rng.chance(1, 120) {
            obs.reboots += 1;
            if let Some(mut d) = sim.daemon.take() {
                d.stop();
            }
            sim.client = None;
            {
                let mut w = world.lock().unwrap();
                let down = rng.range(5, 300) as i128 * NS;
                w.advance(down);
                let up = match rng.below(3) { 0 => rng.range(200_000_000, 5_000_000_000) as i128, 1 => rng.range(5, 200) as i128 * NS, _ => rng.range(200, 2_000_000) as i128 * NS };
                w.t_boot = w.t - up;
                w.err_units = rng.range(-2_000_000_000, 2_000_000_000) as i128 * UNIT;
            }
            sim.start_daemon();
            let (m_now, e_now) = {
                let w = world.lock().unwrap();
                (w.mono_ns(), w.err_units / UNIT)
            };
            history.push(format!("#{} machine reboot: monotonic clock now {} ns, wall clock error {} ns, segment file kept", n, m_now, e_now));
            outage_left = 0;
            forced = Some(match rng.below(3) {
                0 => Step::Silence,
                _ => Step::Answer { kind: AnswerKind::Unsync, request_latency: 0, reply_latency: 0, tight: false, ref_id: 0x7f7f_0101, phc_share: 0 },
            });
        }
        // --- the machine is suspended and resumed: true time and the wall clock move on (the
        // persistent clock is taken as exact: the clock error does not change), the monotonic
        // clock stands still, CLOCK_BOOTTIME runs ahead of it from now on.
        if rng.chance(1, 150) {
            let s_ns = *rng.pick(&[1_500_000_000i128, 30 * NS, 3600 * NS]);
            let mut w = world.lock().unwrap();
            w.t += s_ns;
            w.t_boot += s_ns;
            w.suspended += s_ns;
            drop(w);
            obs.suspends += 1;
            history.push(format!("#{} machine suspended for {} ns", n, s_ns));
        }
        // --- PHC file trouble
        if with_phc && rng.chance(1, 25) {
            phc_broken = !phc_broken;
            if phc_broken { let _ = std::fs::remove_file(&phc_path); } else { std::fs::write(&phc_path, format!("{}\n", sim.phc_value)).unwrap(); }
        }
        // --- the device's own error bound changes over time (the file is rewritten in place)
        if with_phc && !phc_broken && rng.chance(1, 6) {
            sim.phc_value = *rng.pick(&[0i64, 1, 7, 12345, 31_000, 3_000_000, 250]);
            use std::io::Write;
            let mut f = std::fs::OpenOptions::new().write(true).truncate(true).open(&phc_path).unwrap();
            writeln!(f, "{}", sim.phc_value).unwrap();
        }
        // --- the poll
        let step = if let Some(f) = forced.take() {
            f
        } else if outage_left > 0 {
            outage_left -= 1;
            Step::Silence
        } else {
            let s = random_step(&mut rng, mode, phc_refid);
            if matches!(s, Step::Silence) && rng.chance(1, 3) {
                outage_left = rng.below(8);
            }
            s
        };
        history.push(format!("#{} t+{}ns {:?}", n, sim.now_t() - t0, step));
        if history.len() > 40 {
            history.drain(1..2);
        }
        sim.poll(a, prop, step, &mut rng, obs, violations, &history)?;
        // right after the publication
        sim.query(a, prop, false, "right-after-publication", 0, obs, violations, &history, sim.have_sync && outage_left == 0);
        if !violations.is_empty() && violations.len() >= 20 {
            break;
        }
    }
    if let Some(mut d) = sim.daemon.take() {
        d.stop();
    }
    clock::uninstall();
    let _ = std::fs::remove_dir_all(&sim.dir);
    Ok(history)
}

/// Leave the segment as a daemon killed in the middle of write() would: odd generation, the first
/// k words of a record that was never completely published (a fresh timestamp and a small bound).
fn tear_segment(path: &Path, rng: &mut Rng, mono_ns: i128) -> bool {
    use std::os::unix::fs::FileExt;
    let f = match std::fs::OpenOptions::new().read(true).write(true).open(path) {
        Ok(f) => f,
        Err(_) => return false,
    };
    let mut b = [0u8; 72];
    if f.read_at(&mut b, 0).unwrap_or(0) != 72 {
        return false;
    }
    let gen = u16::from_ne_bytes([b[14], b[15]]);
    if gen == 0 {
        return false;
    }
    let odd = if gen & 1 == 0 { gen.wrapping_add(1) } else { gen };
    let as_of = ((mono_ns / NS) as i64, (mono_ns % NS) as i64);
    let newer: [u64; 7] = [as_of.0 as u64, as_of.1 as u64, (as_of.0 + 1000) as u64, 0, rng.range(50, 5000) as u64, u64::from_ne_bytes(b[56..64].try_into().unwrap()), 1];
    let k = 1 + rng.below(6) as usize;
    f.write_at(&odd.to_ne_bytes(), 14).unwrap();
    for (i, w) in newer.iter().enumerate().take(k) {
        f.write_at(&w.to_ne_bytes(), 16 + 8 * i as u64).unwrap();
    }
    true
}

fn arg_tick(a: &Args) -> i128 {
    a.map.get("tick").and_then(|s| s.parse::<i128>().ok()).unwrap_or(0)
}

pub fn run(mode: &str, a: &Args) -> Value {
    let mut obs = Obs::default();
    let mut violations = Vec::new();
    let mut evaluations = 0u64;
    let mut distinct = std::collections::HashSet::new();
    let mut samples = Vec::new();
    let mut inconclusive: Option<String> = None;
    let only: Option<u64> = a.map.get("history").and_then(|s| s.parse().ok());
    let mut k = a.shard;
    while k < a.count {
        let seed = only.unwrap_or_else(|| Rng::new(a.seed.wrapping_mul(0x51_7C_C1B7).wrapping_add(k)).next());
        match one_history(a, mode, seed, &mut obs, &mut violations) {
            Ok(h) => {
                evaluations += 1;
                distinct.insert(seed);
                if samples.len() < 2 {
                    samples.push(json!({"seed": seed.to_string(), "history_tail": h.iter().rev().take(6).rev().collect::<Vec<_>>()}));
                }
            }
            Err(e) => inconclusive = Some(e),
        }
        if violations.len() >= 20 || only.is_some() {
            break;
        }
        k += a.nshards;
    }
    let mut v = json!({
        "evaluations": evaluations, "distinct": distinct.len(), "polls": obs.polls, "answers_by_status": obs.answers_by_status, "outcomes_by_kind": obs.outcomes_by_kind,
        "adversarial_instants": obs.adversarial_instants, "min_margin_ns": obs.min_margin_ns.map(|m| m.to_string()), "restarts": obs.restarts, "reboots": obs.reboots, "suspends": obs.suspends, "polls_with_short_phc_reads": obs.polls_with_short_phc_reads, "answers_without_a_system_clock_read": obs.answers_without_a_system_clock_read,
        "trusted_in_sync_phase": obs.trusted_in_sync_phase, "answers_in_sync_phase": obs.answers_in_sync_phase, "order_checks": obs.order_checks, "gap_checks": obs.gap_checks,
        "msg_checks": obs.msg_checks, "client_errors": obs.client_errors, "violations": violations, "samples": samples,
    });
    if let Some(e) = inconclusive {
        v["inconclusive"] = json!(e);
    }
    v
}

#[allow(dead_code)]
fn unused(_: &Path) {}

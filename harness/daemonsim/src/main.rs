//! In-process drivers of the daemon side (real ShmUpdater / FSM / process_messages, real poller
//! loop, real ShmWriter/ShmReader/ClockBoundClient) under a virtual clock.
//!
//! daemonsim <mode> --seed N --count K --shard i/n --out f [--dump file]
//! modes: c07 c08 c09 c10 c12 c13 c01

mod realpoller;
mod rig;
mod wire;
mod world;

use std::collections::BTreeMap;
use std::io::Write;

use clock_bound_d::Message;
use rig::{generation_of, read_fresh, workdir, Daemon, Raw, Wait};
use vworld::serde_json::Value;
use vworld::{arg_str, arg_u64, clock, json, parse_args, Rng};
use wire::{bits_of_f64, decode_float, float_bits, tracking_of, Report};

pub const NS: i128 = 1_000_000_000;
pub const T0_REAL_S: i64 = 1_700_000_000;

pub struct Args {
    pub seed: u64,
    pub count: u64,
    pub shard: u64,
    pub nshards: u64,
    pub replay_dir: String,
    pub dump: String,
    pub map: std::collections::HashMap<String, String>,
}

fn ts(sec: i64, nsec: i64) -> libc::timespec {
    libc::timespec { tv_sec: sec, tv_nsec: nsec }
}

pub fn sync_report(correction_bits: u32, delay_bits: u32, dispersion_bits: u32) -> Report {
    Report { ref_id: 0, leap: 0, ref_time_ns: T0_REAL_S as i128 * NS, correction_bits, delay_bits, dispersion_bits, interval_bits: bits_of_f64(16.0) }
}

fn violation(out: &mut Vec<Value>, a: &Args, prop: &str, sig: &str, detail: String, replay: Value) {
    if out.len() < 20 {
        let rp = format!("{}/{}-daemonsim-{}-{}-{}.json", a.replay_dir, prop, a.seed, a.shard, out.len());
        vworld::write_json(&rp, &json!({"property": prop, "engine": "daemonsim", "sig": sig, "detail": detail, "case": replay}));
        out.push(json!({"sig": sig, "detail": detail, "replay": rp}));
    }
}

// ------------------------------------------------------------------------------------------ C07

fn gen_float(rng: &mut Rng, k: u64, signed: bool) -> u32 {
    // Meaningful range: |value| < 2^30 s, i.e. exponent field <= 31.
    let exp = (k % 96) as i32 - 64;
    let coef: i64 = match rng.below(8) {
        0 => 0,
        1 => 1,
        2 => (1 << 24) - 1,
        3 => 1 << 23,
        4 => rng.range(1, 1000),
        _ => rng.range(0, (1 << 24) - 1),
    };
    let coef = if signed && rng.chance(1, 2) { -coef } else { coef };
    float_bits(coef, exp)
}

fn mode_c07(a: &Args) -> Value {
    let dir = workdir("c07");
    let path = dir.join("shm");
    clock::fixed::set((T0_REAL_S, 0), (5000, 0));
    let mut d = Daemon::start(&path, 1000, true);
    let mut rng = Rng::new(a.seed ^ 0xC07 ^ a.shard << 32);
    let mut dump = std::io::BufWriter::new(std::fs::File::create(&a.dump).expect("--dump"));
    let mut violations = Vec::new();
    let mut evaluations = 0u64;
    let mut kinds: BTreeMap<&'static str, u64> = BTreeMap::new();
    let batch = 2000u64;
    let mut k = a.shard;
    let mut file_checks = 0u64;
    while k < a.count {
        let mut sent: Vec<(Report, i64, (i64, i64))> = Vec::new();
        // position in the publication log of the record each report must produce: other poll outcomes
        // (chronyd silent or the PHC unreadable, inside and outside the grace period) come in between,
        // one publication each; "for every tracking report" includes the first one after an outage
        let mut slot: Vec<usize> = Vec::new();
        let mut messages = 0usize;
        let base = d.log.lock().unwrap().len();
        while (sent.len() as u64) < batch && k < a.count {
            if rng.chance(1, 8) {
                for _ in 0..(1 + rng.below(3)) {
                    d.send(match rng.below(4) {
                        0 => Message::ChronyNotRespondingGracePeriod,
                        1 => Message::PhcErrorBoundRetrievalFailedGracePeriod,
                        2 => Message::ChronyNotResponding,
                        _ => Message::PhcErrorBoundRetrievalFailed,
                    });
                    messages += 1;
                    *kinds.entry("outage-message-before-a-report").or_insert(0) += 1;
                }
            }
            let (o, dl, dp, kind): (u32, u32, u32, &'static str) = match rng.below(10) {
                0 => (0, 0, 0, "all-zero"),
                1 => {
                    // offset alone, value close to a whole number of nanoseconds
                    let n = rng.range(1, 2_000_000_000) as f64;
                    let v = n * 1e-9 * if rng.chance(1, 2) { -1.0 } else { 1.0 };
                    (bits_of_f64(v), 0, 0, "near-integer-ns")
                }
                2 => (gen_float(&mut rng, k, true), 0, 0, "offset-only"),
                3 => (0, gen_float(&mut rng, k, false), 0, "delay-only"),
                4 => (0, 0, gen_float(&mut rng, k, false), "dispersion-only"),
                5 => {
                    // realistic magnitudes: microseconds to milliseconds
                    let us = |r: &mut Rng| r.range(1, 5_000_000) as f64 * 1e-9;
                    let s = if rng.chance(1, 2) { -1.0 } else { 1.0 };
                    (bits_of_f64(s * us(&mut rng)), bits_of_f64(us(&mut rng)), bits_of_f64(us(&mut rng)), "realistic")
                }
                6 => {
                    // chronyd's own special values: delay and dispersion of exactly 1 s (its defaults), 0, 0.5
                    let sp = |r: &mut Rng| bits_of_f64(*r.pick(&[1.0f64, 1.0, 0.5, 2.0, 0.0]));
                    (bits_of_f64(*rng.pick(&[0.0f64, 1e-6, -1e-6, 1.0, -1.0])), sp(&mut rng), sp(&mut rng), "chrony-special-values")
                }
                _ => (gen_float(&mut rng, k, true), gen_float(&mut rng, k + 31, false), gen_float(&mut rng, k + 57, false), "stratified"),
            };
            // "all PHC error-bound values": whatever the attribute file can hold parses as an i64, including a driver's
            // all-ones "unknown" value; the sum then has no i64 representation and must not wrap
            let phc: i64 = *rng.pick(&[0i64, 0, 0, 0, 0, 0, 1, 1, 12345, 12345, 1 << 40, 1 << 40, 1 << 62, i64::MAX, i64::MAX - 999, 9_000_000_000_000_000_000]);
            // Now and then the very same report again, with another PHC bound.
            let (o, dl, dp, kind) = match sent.last() {
                Some((prev, prev_phc, _)) if rng.chance(1, 12) && *prev_phc != phc => (prev.correction_bits, prev.delay_bits, prev.dispersion_bits, "same-report-other-phc"),
                _ => (o, dl, dp, kind),
            };
            *kinds.entry(kind).or_insert(0) += 1;
            if kind == "same-report-other-phc" {
                wire::repeat_noise_once();
            }
            let r = sync_report(o, dl, dp);
            let as_of = (1000 + (k / 1_000_000_000) as i64, (k % 1_000_000_000) as i64);
            d.send(Message::ClockErrorBoundData((tracking_of(&r), phc, ts(as_of.0, as_of.1))));
            sent.push((r, phc, as_of));
            slot.push(messages);
            messages += 1;
            k += a.nshards;
        }
        for _ in 0..messages {
            match d.wait_publication() {
                Wait::Published => {}
                Wait::NotPublished => {
                    violation(&mut violations, a, "C07", "no-publication", "a synchronised report was consumed without a publication".into(), json!({}));
                    break;
                }
                Wait::Inconclusive => {
                    return json!({"inconclusive": "writer thread did not answer", "evaluations": evaluations, "violations": violations});
                }
            }
        }
        let log = d.log.lock().unwrap();
        for (i, (r, phc, as_of)) in sent.iter().enumerate() {
            let rec = match log.get(base + slot[i]) {
                Some(r) => *r,
                None => break,
            };
            evaluations += 1;
            if rec.as_of != *as_of || rec.status != 1 {
                violation(&mut violations, a, "C07", "sync-report-not-recorded", format!("report {:?} (phc {}) was sent with as_of {:?}; published record {:?}", r, phc, as_of, rec), json!({}));
                continue;
            }
            writeln!(dump, "{} {} {} {} {}", r.correction_bits, r.delay_bits, r.dispersion_bits, phc, rec.bound).unwrap();
        }
        drop(log);
        // What the file holds is what the sink was given.
        if let (Ok(f), Some(last)) = (read_fresh(&path), d.log.lock().unwrap().last().cloned()) {
            file_checks += 1;
            if f != last {
                violation(&mut violations, a, "C07", "file-differs-from-sink", format!("segment file holds {:?}, sink was given {:?}", f, last), json!({}));
            }
        }
    }
    d.stop();
    let _ = std::fs::remove_dir_all(&dir);
    json!({"evaluations": evaluations, "kinds": kinds, "file_checks": file_checks, "violations": violations})
}

// ------------------------------------------------------------------------------------------ C10

/// Expected class of a report: 1 Synchronized, 2 FreeRunning, 0 Unknown; None = either (sliver).
fn classify(leap: u16, age_ns: i128, interval_bits: u32) -> (Option<i32>, &'static str) {
    if age_ns < 0 {
        return (Some(0), "future");
    }
    match leap {
        0..=2 => {
            let (c, e2) = decode_float(interval_bits);
            // 8 * interval seconds, exactly, in nanoseconds * 2^-e2 ... compare age with it.
            // age > 8*c*2^e2 s  <=>  age_ns > 8*c*2^e2*1e9
            let stale = if c <= 0 {
                age_ns > 0
            } else if e2 >= 0 {
                age_ns > (8 * c as i128 * NS) << e2
            } else {
                (age_ns << (-e2)) > 8 * c as i128 * NS
            };
            // floor(8*interval) whole seconds, as a saturating cast of the product does
            let floor_s: i128 = if c <= 0 {
                0
            } else if e2 >= 0 {
                (8 * c as i128) << e2
            } else {
                (8 * c as i128) >> (-e2)
            };
            if stale {
                (Some(2), "stale")
            } else if age_ns <= floor_s * NS {
                (Some(1), "fresh")
            } else {
                (None, "sliver")
            }
        }
        3 => (Some(2), "unsynchronised"),
        _ => (Some(0), "bad-leap"),
    }
}

fn mode_c10(a: &Args) -> Value {
    let dir = workdir("c10");
    let path = dir.join("shm");
    clock::fixed::set((T0_REAL_S, 0), (5000, 0));
    let mut d = Daemon::start(&path, 1000, true);
    let mut violations = Vec::new();
    let mut evaluations = 0u64;
    let mut cells: BTreeMap<String, u64> = BTreeMap::new();
    let mut slivers = 0u64;
    let intervals: Vec<(f64, &str)> = vec![(0.0, "0"), (0.1, "0.1"), (0.5, "0.5"), (1.0, "1"), (16.0, "16"), (1024.0, "1024"), (-4.0, "-4"), (0.3, "0.3"), (100000.0, "1e5")];
    // The wall-clock instant at which a report is processed: an ordinary time of day, and instants
    // around the end of a UTC day (the classification may depend on the age only).
    let day_end = (T0_REAL_S as i128 / 86400 + 1) * 86400 * NS;
    let nows: Vec<i128> = vec![T0_REAL_S as i128 * NS, day_end - 1_500_000_000, day_end - 500_000_000, day_end - 1, day_end, day_end + 1, day_end + 100 * NS, day_end + 43200 * NS,
                               day_end - 999_999_999, day_end + 3600 * NS];
    let good = sync_report(float_bits(1 << 10, 0), float_bits(1 << 10, 0), float_bits(1 << 10, 0));

    // Work list: (leap, age, interval bits, fsm state before)
    let mut work: Vec<(u16, i128, u32, usize, &'static str)> = Vec::new();
    // (a) every leap status value, fresh and stale, from the Synchronized state.
    for leap in 0..=65535u32 {
        work.push((leap as u16, 0, bits_of_f64(16.0), 1, "all-leaps"));
        if leap < 8 || leap % 257 == 0 || leap > 65530 {
            work.push((leap as u16, 1000 * NS, bits_of_f64(16.0), 1, "all-leaps-stale"));
            work.push((leap as u16, -1, bits_of_f64(16.0), 1, "all-leaps-future"));
        }
    }
    // (b) the threshold, for interesting leap values, every interval, every FSM state.
    for leap in [0u16, 1, 2, 3, 4, 7, 255, 65535] {
        for (iv, _) in intervals.iter() {
            let bits = bits_of_f64(*iv);
            let (c, e2) = decode_float(bits);
            let thr_floor_ns: i128 = if c <= 0 { 0 } else if e2 >= 0 { ((8 * c as i128) << e2) * NS } else { ((8 * c as i128) >> (-e2)) * NS };
            let thr_exact_ns_ceil: i128 = if c <= 0 { 0 } else if e2 >= 0 { ((8 * c as i128 * NS) << e2) } else { ((8 * c as i128 * NS) + (1i128 << (-e2)) - 1) >> (-e2) };
            let mut ages = vec![-1_000_000_000, -1, 0, 1, thr_floor_ns - 1, thr_floor_ns, thr_floor_ns + 1, thr_exact_ns_ceil - 1, thr_exact_ns_ceil, thr_exact_ns_ceil + 1, thr_exact_ns_ceil + NS, 86_400 * NS * 365];
            ages.retain(|x| *x >= -1_000_000_000);
            for age in ages {
                for state in 0..3 {
                    work.push((leap, age, bits, state, "threshold"));
                }
            }
        }
    }
    // (c) random.
    let mut rng = Rng::new(a.seed ^ 0xC10);
    for _ in 0..a.count {
        let iv = bits_of_f64(rng.range(0, 4_000_000) as f64 / 1000.0);
        let age = match rng.below(3) {
            0 => rng.range(0, 40_000_000_000_000) as i128,
            1 => {
                let (c, e2) = decode_float(iv);
                let t = if e2 >= 0 { (8 * c as i128 * NS) << e2 } else { (8 * c as i128 * NS) >> (-e2) };
                t + rng.range(-3, 3) as i128
            }
            _ => rng.range(-5, 5) as i128,
        };
        work.push((*rng.pick(&[0u16, 1, 2, 3, 4, 9, 65535]), age, iv, rng.below(3) as usize, "random"));
    }

    // Every work item gets a wall-clock instant; (d) the edges of the age range at every instant.
    let mut work: Vec<(u16, i128, u32, usize, &'static str, usize)> = work.into_iter().enumerate().map(|(i, w)| (w.0, w.1, w.2, w.3, w.4, (i / 3) % nows.len())).collect();
    for ni in 0..nows.len() {
        for leap in [0u16, 1, 2, 3, 4] {
            for ivl in [1.0f64, 16.0, 64.0] {
                let lim = (8.0 * ivl) as i128 * NS;
                for age in [-NS - 1, -NS, -999_999_999, -500_000_000, -1, 0, 1, 500_000_000, NS, lim - NS, lim - 1, lim, lim + 1, lim + NS, 2 * lim, 512 * NS, 513 * NS, 86_400 * NS - 1, 86_400 * NS, 86_401 * NS] {
                    work.push((leap, age, bits_of_f64(ivl), 1, "time-of-day", ni));
                }
            }
        }
    }
    let mut idx = 0usize;
    let mut samples = Vec::new();
    for (leap, age, iv, state, kind, ni) in work.iter() {
        idx += 1;
        if (idx as u64) % a.nshards != a.shard {
            continue;
        }
        let now_ns = nows[*ni];
        clock::fixed::set(((now_ns / NS) as i64, (now_ns % NS) as i64), (5000, 0));
        let good = Report { ref_time_ns: now_ns, ..good };
        *cells.entry(format!("time-of-day-{}", (now_ns / NS) % 86400)).or_insert(0) += 1;
        // Bring the FSM to the wanted state, always with a measurement on record.
        d.send(Message::ClockErrorBoundData((tracking_of(&good), 0, ts(4000, 0))));
        let mut expect_n = 2;
        match state {
            0 => {
                d.send(Message::ChronyNotResponding);
                expect_n = 3;
            }
            2 => {
                d.send(Message::ChronyNotRespondingGracePeriod);
                expect_n = 3;
            }
            _ => {}
        }
        let r = Report { ref_id: 0, leap: *leap, ref_time_ns: now_ns - age, correction_bits: float_bits(1 << 10, 0), delay_bits: 0, dispersion_bits: 0, interval_bits: *iv };
        // (the PHC error bound that comes with the report is no input of the classification)
        let phc = [0i64, 1, 12345, 3_000_000][idx % 4];
        d.send(Message::ClockErrorBoundData((tracking_of(&r), phc, ts(4001, 0))));
        let mut ok = true;
        for _ in 0..expect_n {
            match d.wait_publication() {
                Wait::Published => {}
                Wait::NotPublished => {
                    violation(&mut violations, a, "C10", "no-publication", format!("report leap {} age {} ns was consumed without a publication", leap, age), json!({}));
                    ok = false;
                    break;
                }
                Wait::Inconclusive => return json!({"inconclusive": "writer thread did not answer", "evaluations": evaluations, "violations": violations}),
            }
        }
        if !ok {
            break;
        }
        let rec = *d.log.lock().unwrap().last().unwrap();
        let before = { let l = d.log.lock().unwrap(); l[l.len() - 2] };
        evaluations += 1;
        let state_ok = before.status == [0, 1, 2][*state];
        if !state_ok {
            // The FSM could not be brought to the wanted state: not this property's business, note it.
            *cells.entry("state-setup-differs".to_string()).or_insert(0) += 1;
        }
        let (expected, class) = classify(*leap, *age, *iv);
        *cells.entry(format!("{}|{}|from-{}", kind, class, state)).or_insert(0) += 1;
        match expected {
            None => slivers += 1,
            Some(e) => {
                if rec.status != e {
                    violation(&mut violations, a, "C10", &format!("misclassified-{}", class), format!("leap status {}, reference time {} ns old, update interval {} s (8 intervals = {} s), FSM state before {}: published status {} expected {}", leap, age, wire::f64_of_bits(*iv), 8.0 * wire::f64_of_bits(*iv), state, rec.status, e),
                              json!({"leap": leap, "age_ns": age.to_string(), "interval_bits": iv, "state": state}));
                }
            }
        }
        if samples.len() < 3 && *kind == "threshold" && *leap == 1 {
            samples.push(json!({"leap": leap, "age_ns": age.to_string(), "interval_s": wire::f64_of_bits(*iv), "from_state": state, "published_status": rec.status, "expected": expected}));
        }
    }
    // The very same report again, later: what counts is the age when the report is processed.
    // (chronyd keeps reporting the same reference time until it updates the clock again.)
    let mut replayed = 0u64;
    let now_ns = T0_REAL_S as i128 * NS;
    if a.shard == 0 {
        for leap in [0u16, 1, 2] {
            for ivl in [0.25f64, 1.0, 16.0, 64.0] {
                for (first_frac, later_mult) in [(0.1f64, 2.0f64), (0.5, 1.2), (0.9, 1.01), (0.0, 8.5), (0.1, 0.5)] {
                    let limit_ns = (8.0 * ivl * 1e9) as i128;
                    let t1 = now_ns;
                    let age1 = (limit_ns as f64 * first_frac) as i128;
                    let r = Report { ref_id: 0, leap, ref_time_ns: t1 - age1, correction_bits: float_bits(1 << 10, 0), delay_bits: 0, dispersion_bits: 0, interval_bits: bits_of_f64(ivl) };
                    clock::fixed::set((T0_REAL_S, 0), (5000, 0));
                    d.send(Message::ClockErrorBoundData((tracking_of(&r), 0, ts(4100, 0))));
                    let dt = (limit_ns as f64 * later_mult) as i128;
                    let t2 = t1 + dt;
                    for (when, t) in [("first", t1), ("replayed-later", t2)] {
                        if when == "replayed-later" {
                            clock::fixed::set(((t2 / NS) as i64, (t2 % NS) as i64), (5000 + (dt / NS) as i64, 0));
                            wire::repeat_noise_once();
                            d.send(Message::ClockErrorBoundData((tracking_of(&r), 0, ts(4100 + (dt / NS) as i64, 0))));
                        }
                        if !matches!(d.wait_publication(), Wait::Published) {
                            return json!({"inconclusive": "writer thread did not answer", "evaluations": evaluations, "violations": violations});
                        }
                        let rec = *d.log.lock().unwrap().last().unwrap();
                        let (expected, class) = classify(leap, t - (t1 - age1), bits_of_f64(ivl));
                        replayed += 1;
                        *cells.entry(format!("same-report-{}|{}", when, class)).or_insert(0) += 1;
                        if let Some(e) = expected {
                            if rec.status != e {
                                violation(&mut violations, a, "C10", &format!("misclassified-{}-{}", class, when), format!("leap status {}, update interval {} s, report processed {} with its reference time {} ns old: published status {} expected {}", leap, ivl, when, t - (t1 - age1), rec.status, e), json!({"leap": leap, "interval": ivl, "when": when}));
                            }
                        }
                    }
                }
            }
        }
        clock::fixed::set((T0_REAL_S, 0), (5000, 0));
    }
    d.stop();
    let _ = std::fs::remove_dir_all(&dir);
    json!({"evaluations": evaluations + replayed, "work_items": work.len() as u64 + replayed, "replayed_reports": replayed, "cells": cells, "slivers": slivers, "violations": violations, "samples": samples})
}

// ------------------------------------------------------------------------------------------ C02
/// A daemon incarnation over a segment its predecessor left in the middle of an update, stopped
/// (ThreadAbort, as when another thread died) after 0..3 outcomes: what a new client then reads
/// must not contain any word of the update that was never completed.
fn mode_c02stop(a: &Args) -> Value {
    let dir = workdir("c02stop");
    let path = dir.join("shm");
    let mut violations = Vec::new();
    let mut evaluations = 0u64;
    let mut results: BTreeMap<String, u64> = BTreeMap::new();
    let rec_a: [i64; 5] = [1001, 1002, 1003, 1004, 1005];
    let rec_b: [i64; 5] = [2001, 2002, 2003, 2004, 2005];
    let mut rng = Rng::new(a.seed ^ 0xC02);
    let mut case = 0u64;
    for gen in [1u16, 3, 12345, 65535, 65533] {
        for words in 0..=7usize {
            for k in 0..4usize {
                case += 1;
                if case % a.nshards != a.shard {
                    continue;
                }
                // header + record A, then the first `words` words overwritten with B's
                let mut b = Vec::with_capacity(72);
                b.extend_from_slice(&0x414D5A4Eu32.to_ne_bytes());
                b.extend_from_slice(&0x43420200u32.to_ne_bytes());
                b.extend_from_slice(&72u32.to_ne_bytes());
                b.extend_from_slice(&1u16.to_ne_bytes());
                b.extend_from_slice(&gen.to_ne_bytes());
                for w in 0..5 {
                    b.extend_from_slice(&(if w < words { rec_b[w] } else { rec_a[w] }).to_ne_bytes());
                }
                let (drift, reserved) = if words > 5 { (2006u32, 2007u32) } else { (1006u32, 1007u32) };
                b.extend_from_slice(&drift.to_ne_bytes());
                b.extend_from_slice(&reserved.to_ne_bytes());
                b.extend_from_slice(&(if words > 6 { 2i32 } else { 1i32 }).to_ne_bytes());
                b.extend_from_slice(&0u32.to_ne_bytes());
                std::fs::write(&path, &b).unwrap();
                clock::fixed::set((T0_REAL_S, 0), (5000, 0));
                let mut d = Daemon::start_plain(&path, 1000);
                let mut sent = Vec::new();
                for _ in 0..k {
                    let o = random_outcome(&mut rng, true);
                    sent.push(o.name());
                    d.send(o.message((4000, 0), T0_REAL_S as i128 * NS));
                }
                d.stop();
                evaluations += 1;
                let gen_after = generation_of(&path).unwrap_or(0);
                let got = read_fresh(&path);
                let key = match &got {
                    Ok(r) if r.as_of == (0, 0) && r.bound == 0 && r.void_after == (0, 0) => "zero-record".to_string(),
                    Ok(_) => "a-record".to_string(),
                    Err(e) => format!("error:{}", e.split(':').next().unwrap_or("?")),
                };
                *results.entry(format!("{}|outcomes-before-stop-{}", key, k)).or_insert(0) += 1;
                if let Ok(r) = got {
                    let fields = [r.as_of.0, r.as_of.1, r.void_after.0, r.void_after.1, r.bound, r.drift as i64, r.reserved as i64];
                    let from_b = fields.iter().filter(|v| (2001..=2007).contains(*v)).count();
                    let from_a = fields.iter().filter(|v| (1001..=1007).contains(*v)).count();
                    if from_b > 0 || (from_a > 0 && from_a < 7) {
                        violation(&mut violations, a, "C02", "words-of-an-update-never-completed", format!("segment left at generation {} with the first {} words of an update written over the previous record; a new daemon started on it, handled {:?} and was stopped; generation is now {} and a new client reads {:?}: {} fields of the unfinished update, {} of the record before it", gen, words, sent, gen_after, r, from_b, from_a),
                                  json!({"generation": gen, "words": words, "outcomes": sent}));
                    }
                }
            }
        }
    }
    let _ = std::fs::remove_dir_all(&dir);
    json!({"evaluations": evaluations, "results": results, "violations": violations})
}

// ------------------------------------------------------------------------------------ C08 / C09

#[derive(Debug, Clone, Copy, PartialEq)]
enum Outcome {
    /// Synchronised report: (|a| + b + c) / 1024 seconds with offset a/1024 (signed), dispersion b/1024, delay c/512; PHC bound;
    /// update interval 2^ivl_log2 s and a reference time `age_permille`/1000 of the way to the eight-interval limit.
    Sync { a: i64, b: i64, c: i64, phc: i64, ivl_log2: u8, age_permille: u16 },
    Unsync,
    Stale,
    BadLeap,
    Future,
    NoReplyGrace,
    NoReply,
    PhcFailGrace,
    PhcFail,
}

impl Outcome {
    fn name(&self) -> &'static str {
        match self {
            Outcome::Sync { .. } => "sync",
            Outcome::Unsync => "unsync",
            Outcome::Stale => "stale",
            Outcome::BadLeap => "bad-leap",
            Outcome::Future => "future",
            Outcome::NoReplyGrace => "no-reply-grace",
            Outcome::NoReply => "no-reply",
            Outcome::PhcFailGrace => "phc-fail-grace",
            Outcome::PhcFail => "phc-fail",
        }
    }

    /// Status class of the outcome: 1 sync, 2 free running, 0 unknown.
    fn class(&self) -> i32 {
        match self {
            Outcome::Sync { .. } => 1,
            Outcome::Unsync | Outcome::Stale | Outcome::NoReplyGrace | Outcome::PhcFailGrace => 2,
            Outcome::BadLeap | Outcome::Future | Outcome::NoReply | Outcome::PhcFail => 0,
        }
    }

    /// `now_ns`: the virtual CLOCK_REALTIME at which the daemon will process the message.
    fn message(&self, as_of: (i64, i64), now_ns: i128) -> Message {
        self.message_ref(as_of, now_ns, None)
    }

    /// `same_ref`: the reference time chronyd reported last (it keeps reporting it until its next
    /// clock update); a stale report carries it when it is old enough to be stale.
    fn message_ref(&self, as_of: (i64, i64), now_ns: i128, same_ref: Option<i128>) -> Message {
        let dy = |n: i64| float_bits(n, 25 - 10); // n / 1024
        let rep = |leap: u16, age: i128, a: i64, b: i64, c: i64| Report { ref_id: 0, leap, ref_time_ns: now_ns - age, correction_bits: dy(a), delay_bits: float_bits(c, 25 - 9), dispersion_bits: dy(b), interval_bits: bits_of_f64(16.0) };
        match self {
            Outcome::Sync { a, b, c, phc, ivl_log2, age_permille } => {
                let interval_s = 1i128 << *ivl_log2;
                let age = 8 * interval_s * NS * *age_permille as i128 / 1000;
                // leap status 0, 1 (insert second) and 2 (delete second) are all "synchronised"
                let mut r = rep(((a.unsigned_abs() + *b as u64 + *c as u64 + *age_permille as u64) % 3) as u16, age, *a, *b, *c);
                r.interval_bits = bits_of_f64(interval_s as f64);
                Message::ClockErrorBoundData((tracking_of(&r), *phc, ts(as_of.0, as_of.1)))
            }
            Outcome::Unsync => Message::ClockErrorBoundData((tracking_of(&rep(3, 0, 1024, 1024, 512)), 0, ts(as_of.0, as_of.1))),
            Outcome::Stale => {
                let age = match same_ref {
                    Some(r) if now_ns - r > 200 * NS => now_ns - r,
                    _ => 1000 * NS,
                };
                Message::ClockErrorBoundData((tracking_of(&rep(1, age, 7, 9, 11)), 0, ts(as_of.0, as_of.1)))
            }
            Outcome::BadLeap => Message::ClockErrorBoundData((tracking_of(&rep(9, 0, 7, 9, 11)), 0, ts(as_of.0, as_of.1))),
            Outcome::Future => Message::ClockErrorBoundData((tracking_of(&rep(0, -5 * NS, 7, 9, 11)), 0, ts(as_of.0, as_of.1))),
            Outcome::NoReplyGrace => Message::ChronyNotRespondingGracePeriod,
            Outcome::NoReply => Message::ChronyNotResponding,
            Outcome::PhcFailGrace => Message::PhcErrorBoundRetrievalFailedGracePeriod,
            Outcome::PhcFail => Message::PhcErrorBoundRetrievalFailed,
        }
    }
}

fn expected_bound(a: i64, b: i64, c: i64, phc: i64) -> i64 {
    // (|a| + b + c) / 1024 s in ns, rounded up; exact in integers.
    let num = (a.abs() + b + c) as i128 * NS;
    // a sum the record's field cannot hold is published as the largest value it can hold (C07)
    (((num + 1023) / 1024) as i64).saturating_add(phc)
}

fn random_outcome(rng: &mut Rng, allow_sync: bool) -> Outcome {
    let n = if allow_sync { 12 } else { 8 };
    match rng.below(n) {
        0 => Outcome::Unsync,
        1 => Outcome::Stale,
        2 => Outcome::BadLeap,
        3 => Outcome::Future,
        4 => Outcome::NoReplyGrace,
        5 => Outcome::NoReply,
        6 => Outcome::PhcFailGrace,
        7 => Outcome::PhcFail,
        8 => Outcome::Sync { a: *rng.pick(&[0i64, 1, -1, 1024, -3000]), b: 1024, c: 512, phc: 0, ivl_log2: 4, age_permille: 10 }, // chronyd's start-up defaults: delay 1 s, dispersion 1 s
        _ => Outcome::Sync { a: rng.range(-2_000_000, 2_000_000), b: rng.range(0, 2_000_000), c: rng.range(0, 2_000_000), phc: *rng.pick(&[0i64, 0, 0, 0, 0, 0, 5, 5, 30_000, 30_000, 30_000, 1 << 62, i64::MAX, i64::MAX - 5]),
                             ivl_log2: *rng.pick(&[0u8, 4, 4, 6, 10, 12]), age_permille: *rng.pick(&[0u16, 10, 500, 990, 1000]) },
    }
}

/// With `previous`: the previous incarnation left only the placeholder record (see run_sequence_on).
static PLACEHOLDER_PREVIOUS: std::sync::atomic::AtomicBool = std::sync::atomic::AtomicBool::new(false);

const NONSYNC: [Outcome; 8] = [Outcome::Unsync, Outcome::Stale, Outcome::BadLeap, Outcome::Future, Outcome::NoReplyGrace, Outcome::NoReply, Outcome::PhcFailGrace, Outcome::PhcFail];

/// Run one sequence on a fresh daemon incarnation (optionally over a segment left by a previous
/// incarnation) and check it against the reference model. `prop` selects which oracle reports.
fn run_sequence(a: &Args, prop: &str, seq: &[Outcome], drift: u32, previous: bool, dir: &std::path::Path, violations: &mut Vec<Value>, stats: &mut BTreeMap<String, u64>, uptimes_ns: &[i128]) -> Result<(), String> {
    run_sequence_on(a, prop, seq, drift, previous, dir, violations, stats, uptimes_ns, false)
}

/// `real_run`: the writer thread is the daemon's own `shm_writer::run()` on the real segment path.
#[allow(clippy::too_many_arguments)]
fn run_sequence_on(a: &Args, prop: &str, seq: &[Outcome], drift: u32, previous: bool, dir: &std::path::Path, violations: &mut Vec<Value>, stats: &mut BTreeMap<String, u64>, uptimes_ns: &[i128], real_run: bool) -> Result<(), String> {
    let path = if real_run { std::path::PathBuf::from(rig::REAL_SHM_PATH) } else { dir.join("shm") };
    let _ = std::fs::remove_file(&path);
    clock::fixed::set((T0_REAL_S, 0), (50, 0));
    let placeholder_previous = previous && PLACEHOLDER_PREVIOUS.load(std::sync::atomic::Ordering::SeqCst);
    if placeholder_previous {
        // A previous incarnation never synchronised: all it left behind is the placeholder record
        // (Unknown, bound 0, as of 0). Real ShmWriter as the sink, before and after the restart.
        let mut d0 = Daemon::start_plain(&path, drift);
        d0.send(Outcome::NoReply.message((20, 7), T0_REAL_S as i128 * NS));
        if !matches!(d0.wait_publication(), Wait::Published) {
            return Err("previous incarnation did not publish".into());
        }
        d0.stop();
        *stats.entry("restarts-over-a-placeholder-record".to_string()).or_insert(0) += 1;
    } else if previous {
        // A previous incarnation left a Synchronized record behind.
        let mut d0 = Daemon::start(&path, drift, true);
        d0.send(Outcome::Sync { a: 100, b: 100, c: 100, phc: 0, ivl_log2: 4, age_permille: 10 }.message((20, 7), T0_REAL_S as i128 * NS));
        if !matches!(d0.wait_publication(), Wait::Published) {
            return Err("previous incarnation did not publish".into());
        }
        d0.stop();
    }
    let mut d = if real_run { Daemon::start_real_run(drift) } else if placeholder_previous { Daemon::start_plain(&path, drift) } else { Daemon::start(&path, drift, true) };
    let c = std::ffi::CString::new(path.to_str().unwrap()).unwrap();
    let mut persistent: Option<clock_bound_shm::ShmReader> = if previous { clock_bound_shm::ShmReader::new(&c).ok() } else { None };
    // Reference model.
    let mut have_sync = false;
    let (mut m_bound, mut m_as_of): (i64, (i64, i64)) = (0, (0, 0));
    let desc = || if seq.len() > 80 { format!("[a life of {} outcomes]", seq.len()) } else { format!("[{}{}]", if previous { "restart; " } else { "" }, seq.iter().map(|o| o.name()).collect::<Vec<_>>().join(" ")) };
    // Virtual time passes between outcomes (none, a poll period, around the 5 s grace period, long):
    // what is published may depend on the outcomes only.
    let mut grng = Rng::new(seq.len() as u64 * 7919 + drift as u64 + previous as u64);
    // In some sequences the wall clock advances by 1 ns at each read (frozen otherwise): a report
    // whose reference time is exactly eight intervals old at the first read is then on the edge,
    // it may be classified either way, but consistently (status and measurement go together).
    let ticking = seq.iter().any(|o| matches!(o, Outcome::Sync { age_permille: 1000, .. })) && grng.chance(3, 4);
    clock::fixed::set_real_tick(if ticking { 1 } else { 0 });
    if ticking {
        *stats.entry("sequences-with-ticking-wall-clock".to_string()).or_insert(0) += 1;
    }
    let mut mono_ns: i128 = 50 * NS;
    // The wall clock starts at an ordinary time of day or close to the end of a UTC day, so that
    // sequences are also processed across midnight.
    let day_end = (T0_REAL_S as i128 / 86400 + 1) * 86400 * NS;
    let mut real_ns: i128 = *grng.pick(&[T0_REAL_S as i128 * NS, T0_REAL_S as i128 * NS, day_end - 10 * NS, day_end - 1_500_000_000, day_end - 500_000_000, day_end - 1, day_end, day_end + NS, day_end + 100 * NS]);
    *stats.entry(format!("wall-clock-start-{}", (real_ns / NS) % 86400)).or_insert(0) += 1;
    let mut boot_offset: i128 = 0;
    let mut last_ref: Option<i128> = None;
    clock::fixed::set_boot_offset(0);
    for (i, o) in seq.iter().enumerate() {
        let gap: i128 = *grng.pick(&[0i128, 1_000_000, NS, NS, 4_900_000_000, 5 * NS, 5 * NS + 1, 7 * NS, 100 * NS, 2000 * NS]);
        mono_ns += gap;
        real_ns += gap;
        // The machine is suspended now and then: the wall clock and CLOCK_BOOTTIME move on, the
        // monotonic clock (in which as_of, the grace period and the clients' ages are counted) does not.
        if grng.chance(1, 8) {
            let s = *grng.pick(&[1_500_000_000i128, 30 * NS, 3600 * NS, 3600 * NS]);
            real_ns += s;
            boot_offset += s;
            clock::fixed::set_boot_offset(boot_offset as i64);
            *stats.entry("suspends".to_string()).or_insert(0) += 1;
        }
        clock::fixed::set(((real_ns / NS) as i64, (real_ns % NS) as i64), ((mono_ns / NS) as i64, (mono_ns % NS) as i64));
        let as_of = ((mono_ns / NS) as i64, (mono_ns % NS) as i64);
        let gen_before = generation_of(&path).unwrap_or(0);
        let n_before = d.log.lock().unwrap().len();
        d.send(o.message_ref(as_of, real_ns, last_ref));
        match o {
            Outcome::Unsync | Outcome::BadLeap => last_ref = Some(real_ns),
            Outcome::Sync { ivl_log2, age_permille, .. } => last_ref = Some(real_ns - 8 * (1i128 << *ivl_log2) * NS * *age_permille as i128 / 1000),
            _ => {}
        }
        match d.wait_publication() {
            Wait::Published => {}
            Wait::NotPublished => {
                if prop == "C08" {
                    violation(violations, a, "C08", "no-publication", format!("outcome #{} ({}) of {} did not result in a publication", i, o.name(), desc()), json!({"sequence": seq.iter().map(|o| format!("{:?}", o)).collect::<Vec<_>>(), "restart": previous}));
                }
                return Ok(());
            }
            Wait::Inconclusive => return Err("writer thread did not answer".into()),
        }
        *stats.entry(format!("outcome-{}", o.name())).or_insert(0) += 1;
        let extra = d.drain_notifications();
        let log_len = d.log.lock().unwrap().len();
        let rec = *d.log.lock().unwrap().last().unwrap();
        let gen_after = generation_of(&path).unwrap_or(0);
        // On the edge under a ticking clock the published status tells which way it went.
        let mut o_eff = *o;
        if ticking && matches!(o, Outcome::Sync { age_permille: 1000, .. }) && rec.status != 1 {
            o_eff = Outcome::Stale;
            *stats.entry("edge-reports-classified-stale".to_string()).or_insert(0) += 1;
        }
        let o = &o_eff;
        if let Outcome::Sync { a: oa, b, c, phc, .. } = o {
            have_sync = true;
            m_bound = expected_bound(*oa, *b, *c, *phc);
            m_as_of = as_of;
        }
        let case = || json!({"sequence": seq.iter().skip(i.saturating_sub(40)).take(41).map(|o| format!("{:?}", o)).collect::<Vec<_>>(), "sequence_length": seq.len(), "restart": previous, "step": i, "published": format!("{:?}", rec)});
        if prop == "C08" {
            // The statement asks for a publication per outcome; more than one is tolerated as long
            // as every one of them carries the expected record (checked on the last, and counted).
            if log_len < n_before + 1 {
                violation(violations, a, "C08", "publication-count", format!("outcome #{} ({}) of {} resulted in {} publications", i, o.name(), desc(), log_len - n_before), case());
            }
            if extra != 0 || log_len != n_before + 1 {
                *stats.entry("outcomes-with-several-publications".to_string()).or_insert(0) += 1;
            }
            let adv = gen_after.wrapping_sub(gen_before);
            if !((adv >= 2 && adv % 2 == 0 && adv <= 16) || (gen_before == 0 && gen_after == 2) || (gen_before >= 65520 && gen_after >= 2 && gen_after <= 16 && gen_after % 2 == 0)) {
                violation(violations, a, "C08", "generation-advance", format!("outcome #{} ({}) of {}: generation {} -> {}", i, o.name(), desc(), gen_before, gen_after), case());
            }
            if rec.drift != drift {
                violation(violations, a, "C08", "drift-field", format!("outcome #{} of {}: published max drift {} ppb, configured {}", i, desc(), rec.drift, drift), case());
            }
            if rec.void_after != (rec.as_of.0 + 1000, 0) {
                violation(violations, a, "C08", "void-after", format!("outcome #{} of {}: as_of {:?} void_after {:?} (expected whole second as_of.sec + 1000)", i, desc(), rec.as_of, rec.void_after), case());
            }
            if have_sync {
                if rec.bound != m_bound || rec.as_of != m_as_of {
                    let sig = if matches!(o, Outcome::Sync { .. }) { "sync-not-recorded" } else { "measurement-not-frozen" };
                    violation(violations, a, "C08", sig, format!("after outcome #{} ({}) of {}: published (bound {}, as_of {:?}), most recent synchronised report gives (bound {}, as_of {:?})", i, o.name(), desc(), rec.bound, rec.as_of, m_bound, m_as_of), case());
                }
                if rec.status != o.class() {
                    violation(violations, a, "C08", "status-after-outcome", format!("after outcome #{} ({}) of {}: published status {} expected {}", i, o.name(), desc(), rec.status, o.class()), case());
                }
            }
            // Read back through the segment: a fresh reader and one that stays attached.
            match read_fresh(&path) {
                Ok(f) if f == rec => {}
                other => violation(violations, a, "C08", "readback-fresh", format!("after outcome #{} of {}: a fresh reader got {:?}, the sink was given {:?}", i, desc(), other, rec), case()),
            }
            if persistent.is_none() {
                persistent = clock_bound_shm::ShmReader::new(&c).ok();
            }
            if let Some(r) = persistent.as_mut() {
                match r.snapshot() {
                    Ok(s) if rig::raw_of(s) == rec => {}
                    other => violation(violations, a, "C08", "readback-attached", format!("after outcome #{} of {}: the attached reader got {:?}, the sink was given {:?}", i, desc(), other.map(rig::raw_of), rec), case()),
                }
            }
        }
        if prop == "C09" && have_sync && rec.status != 0 && (rec.bound != m_bound || rec.as_of != m_as_of) {
            violation(violations, a, "C09", "trusted-status-with-bound-not-from-a-measurement", format!("after outcome #{} ({}) of {}: published status {} with (bound {}, as_of {:?}), but the latest synchronised measurement of this incarnation is (bound {}, as_of {:?})", i, o.name(), desc(), rec.status, rec.bound, rec.as_of, m_bound, m_as_of), case());
        }
        if prop == "C09" && !have_sync {
            *stats.entry("records-before-first-sync".to_string()).or_insert(0) += 1;
            if rec.status != 0 {
                violation(violations, a, "C09", "freerunning-before-first-sync", format!("outcome #{} ({}) of {} published status {} with bound {} as_of {:?} before any synchronised report of this incarnation", i, o.name(), desc(), rec.status, rec.bound, rec.as_of), case());
            }
            // What clients make of it at various machine uptimes.
            for up in uptimes_ns.iter() {
                clock::fixed::set((T0_REAL_S, 0), ((*up / NS) as i64, (*up % NS) as i64));
                let st = clock::with_virtual(|| clock_bound_client::ClockBoundClient::new_with_path(path.to_str().unwrap()).and_then(|mut c| c.now()));
                clock::fixed::set(((real_ns / NS) as i64, (real_ns % NS) as i64), ((mono_ns / NS) as i64, (mono_ns % NS) as i64));
                *stats.entry("client-evaluations".to_string()).or_insert(0) += 1;
                match st {
                    Ok(r) => {
                        let s = match r.clock_status { clock_bound_client::ClockStatus::Unknown => 0, clock_bound_client::ClockStatus::Synchronized => 1, clock_bound_client::ClockStatus::FreeRunning => 2 };
                        if s != 0 {
                            violation(violations, a, "C09", "client-trusts-before-first-sync", format!("after outcome #{} ({}) of {}, a client at uptime {} ns reports status {} (earliest {:?} latest {:?})", i, o.name(), desc(), up, s, r.earliest, r.latest), case());
                        }
                    }
                    Err(e) => {
                        *stats.entry(format!("client-error-{:?}", e.kind)).or_insert(0) += 1;
                    }
                }
            }
        }
    }
    d.stop();
    clock::fixed::set_real_tick(0);
    clock::fixed::set_boot_offset(0);
    Ok(())
}

/// One long life of the daemon's real writer thread (`shm_writer::run()` on the real path, private
/// /run): thousands of outcomes, non-synchronised ones around the hour marks of any per-message
/// counter, a chronyd outage of 1100 polls in the middle. Same reference model as the short sequences.
fn mode_c08run(a: &Args) -> Value {
    if std::fs::metadata("/var/run/chrony/.verif-private").is_err() {
        return json!({"inconclusive": "not inside the private /run namespace", "evaluations": 0, "violations": []});
    }
    let dir = workdir("c08run");
    let mut violations = Vec::new();
    let mut stats: BTreeMap<String, u64> = BTreeMap::new();
    let mut evaluations = 0u64;
    let mut inconclusive: Option<String> = None;
    for life in 0..a.count.max(1) {
        if life % a.nshards != a.shard {
            continue;
        }
        let mut rng = Rng::new(a.seed ^ 0xC08_0000 ^ life);
        let n = 7300usize;
        let outage_at = 3700 + rng.below(1000) as usize;
        let mut seq: Vec<Outcome> = Vec::with_capacity(n);
        for i in 0..n {
            let near_mark = (i % 3600) >= 3594 || (i % 3600) <= 8 || (i % 1000) >= 996 || (i % 1000) <= 3 || (i % 1024) <= 2;
            let o = if i >= outage_at && i < outage_at + 1100 {
                if rng.chance(1, 2) { Outcome::NoReply } else { Outcome::NoReplyGrace }
            } else if i < 3 || (near_mark && rng.chance(2, 3)) || rng.chance(1, 40) {
                random_outcome(&mut rng, false)
            } else {
                random_outcome(&mut rng, true)
            };
            seq.push(o);
        }
        let drift = *rng.pick(&[1000u32, 50_000, 7000]);
        evaluations += 1;
        if let Err(e) = run_sequence_on(a, "C08", &seq, drift, false, &dir, &mut violations, &mut stats, &[], true) {
            inconclusive = Some(e);
        }
    }
    let _ = std::fs::remove_dir_all(&dir);
    let mut v = json!({"evaluations": evaluations, "distinct": evaluations, "stats": stats, "violations": violations, "samples": []});
    if let Some(e) = inconclusive {
        v["inconclusive"] = json!(e);
    }
    v
}

fn mode_c08_c09(a: &Args, prop: &str) -> Value {
    let dir = workdir(&prop.to_lowercase());
    let mut violations = Vec::new();
    let mut stats: BTreeMap<String, u64> = BTreeMap::new();
    let mut evaluations = 0u64;
    let mut distinct = std::collections::HashSet::new();
    let mut samples = Vec::new();
    let mut job = 0u64;
    let uptimes: Vec<i128> = vec![1 * NS, 4_900_000_000, 5 * NS, 60 * NS, 999 * NS, 1000 * NS + 1, 1_000_000 * NS];
    let mut run = |seq: Vec<Outcome>, drift: u32, previous: bool, violations: &mut Vec<Value>, stats: &mut BTreeMap<String, u64>| -> Option<String> {
        job += 1;
        if job % a.nshards != a.shard {
            return None;
        }
        evaluations += 1;
        distinct.insert(format!("{:?}{}{}", seq, drift, previous));
        if samples.len() < 3 && seq.len() >= 3 {
            samples.push(json!({"sequence": seq.iter().map(|o| format!("{:?}", o)).collect::<Vec<_>>(), "restart_over_previous_segment": previous, "max_drift_ppb": drift}));
        }
        run_sequence(a, prop, &seq, drift, previous, &dir, violations, stats, &uptimes).err()
    };
    let sync = Outcome::Sync { a: -1500, b: 300, c: 700, phc: 0, ivl_log2: 4, age_permille: 16 };
    let mut all9: Vec<Outcome> = NONSYNC.to_vec();
    all9.push(sync);
    let mut inconclusive: Option<String> = None;
    if prop == "C08" {
        // Enumerated: every sequence of length <= 3 over the 9 outcome kinds (length 4 in thorough via --deep).
        let maxlen = arg_u64(&a.map, "enumlen", 3) as usize;
        let mut stack: Vec<Vec<Outcome>> = vec![vec![]];
        while let Some(seq) = stack.pop() {
            if !seq.is_empty() {
                if let Some(e) = run(seq.clone(), 1000, false, &mut violations, &mut stats) {
                    inconclusive = Some(e);
                }
            }
            if seq.len() < maxlen {
                for o in all9.iter() {
                    let mut s = seq.clone();
                    s.push(*o);
                    stack.push(s);
                }
            }
        }
        // Random long sequences, random bounds, random drift, with and without a previous incarnation.
        let mut rng = Rng::new(a.seed ^ 0xC08);
        for _ in 0..a.count {
            let len = 1 + rng.below(60) as usize;
            let seq: Vec<Outcome> = (0..len).map(|_| random_outcome(&mut rng, true)).collect();
            let drift = *rng.pick(&[1000u32, 50_000, 500_000, 1, 999_999_999]);
            // one in ten: over a segment in which a previous incarnation left only the placeholder
            // record, with the real ShmWriter as the sink before and after the restart (no tee:
            // whatever the writer thread does with its writer beyond write() happens for real)
            let plain = rng.chance(1, 10);
            PLACEHOLDER_PREVIOUS.store(plain, std::sync::atomic::Ordering::SeqCst);
            let r = run(seq, drift, plain || rng.chance(1, 4), &mut violations, &mut stats);
            PLACEHOLDER_PREVIOUS.store(false, std::sync::atomic::Ordering::SeqCst);
            if let Some(e) = r {
                inconclusive = Some(e);
            }
        }
    } else {
        // C09: every non-synchronised prefix of length <= 4 (5 with --enumlen 5), fresh and restarted.
        let maxlen = arg_u64(&a.map, "enumlen", 3) as usize;
        let mut stack: Vec<Vec<Outcome>> = vec![vec![]];
        while let Some(seq) = stack.pop() {
            if !seq.is_empty() {
                for previous in [false, true] {
                    if let Some(e) = run(seq.clone(), 1000, previous, &mut violations, &mut stats) {
                        inconclusive = Some(e);
                    }
                }
                if seq.len() <= 2 {
                    PLACEHOLDER_PREVIOUS.store(true, std::sync::atomic::Ordering::SeqCst);
                    if let Some(e) = run(seq.clone(), 1000, true, &mut violations, &mut stats) {
                        inconclusive = Some(e);
                    }
                    PLACEHOLDER_PREVIOUS.store(false, std::sync::atomic::Ordering::SeqCst);
                }
            }
            if seq.len() < maxlen {
                for o in NONSYNC.iter() {
                    let mut s = seq.clone();
                    s.push(*o);
                    stack.push(s);
                }
            }
        }
        // The first report of an incarnation on the edge of "synchronised", alone and after
        // non-synchronised outcomes, then outcomes of every kind.
        for ivl in [0u8, 4, 6, 10] {
            for first in [None, Some(Outcome::Unsync), Some(Outcome::NoReplyGrace), Some(Outcome::NoReply)] {
                for after in NONSYNC.iter() {
                    for previous in [false, true] {
                        let mut seq: Vec<Outcome> = first.into_iter().collect();
                        seq.push(Outcome::Sync { a: 700, b: 300, c: 700, phc: 0, ivl_log2: ivl, age_permille: 1000 });
                        seq.push(*after);
                        seq.push(Outcome::Stale);
                        if let Some(e) = run(seq, 1000, previous, &mut violations, &mut stats) {
                            inconclusive = Some(e);
                        }
                    }
                }
            }
        }
        let mut rng = Rng::new(a.seed ^ 0xC09);
        for _ in 0..a.count {
            let len = 1 + rng.below(30) as usize;
            let mut seq: Vec<Outcome> = (0..len).map(|_| random_outcome(&mut rng, false)).collect();
            // then a synchronised report and more, to see that the pipeline does recover
            // (one in four: a report exactly eight intervals old, the edge of "synchronised")
            seq.push(match rng.below(4) {
                0 => Outcome::Sync { a: 0, b: 1024, c: 512, phc: 0, ivl_log2: 4, age_permille: 10 },
                1 => Outcome::Sync { a: rng.range(-5000, 5000), b: 300, c: 700, phc: 0, ivl_log2: *rng.pick(&[0u8, 4, 6]), age_permille: 1000 },
                _ => sync,
            });
            seq.push(random_outcome(&mut rng, true));
            seq.push(random_outcome(&mut rng, false));
            let drift = *rng.pick(&[1000u32, 50_000, 500_000]);
            if let Some(e) = run(seq, drift, rng.chance(1, 2), &mut violations, &mut stats) {
                inconclusive = Some(e);
            }
        }
    }
    let _ = std::fs::remove_dir_all(&dir);
    let mut v = json!({"evaluations": evaluations, "distinct": distinct.len(), "stats": stats, "violations": violations, "samples": samples});
    if let Some(e) = inconclusive {
        v["inconclusive"] = json!(e);
    }
    v
}

fn main() {
    let map = parse_args();
    let mode = map.get("_").cloned().unwrap_or_default();
    let shard_s = arg_str(&map, "shard", "0/1");
    let (shard, nshards): (u64, u64) = {
        let mut it = shard_s.split('/');
        (it.next().unwrap().parse().unwrap(), it.next().unwrap().parse().unwrap())
    };
    let a = Args { seed: arg_u64(&map, "seed", 1), count: arg_u64(&map, "count", 1000), shard, nshards, replay_dir: arg_str(&map, "replays", "/verif/replays"), dump: arg_str(&map, "dump", "/dev/null"), map: map.clone() };
    let t0 = clock::real_clock_ns(libc::CLOCK_MONOTONIC);
    wire::self_check();
    clock::per_thread_mode(true);
    // The real daemon always runs with a tracing subscriber installed (log lines are formatted,
    // their arguments evaluated); a test process usually has none. Odd shards run like the daemon.
    let subscriber = shard % 2 == 1;
    if subscriber {
        let _ = tracing_subscriber::fmt().with_max_level(tracing::Level::TRACE).with_writer(std::io::sink).try_init();
    }
    let mut v = match mode.as_str() {
        "c07" => {
            clock::fixed::install();
            mode_c07(&a)
        }
        "c10" => {
            clock::fixed::install();
            mode_c10(&a)
        }
        "c02stop" => {
            clock::fixed::install();
            mode_c02stop(&a)
        }
        "c08" => {
            clock::fixed::install();
            mode_c08_c09(&a, "C08")
        }
        "c09" => {
            clock::fixed::install();
            mode_c08_c09(&a, "C09")
        }
        "c08run" => {
            clock::fixed::install();
            mode_c08run(&a)
        }
        "c12" | "c13" | "c01" => world::run(&mode, &a),
        "c13real" => realpoller::run(&a),
        m => panic!("unknown mode {:?}", m),
    };
    v["wall_s"] = json!((clock::real_clock_ns(libc::CLOCK_MONOTONIC) - t0) as f64 / 1e9);
    v["virtual_clock_reads"] = json!(clock::virtual_reads());
    v["tracing_subscriber_installed"] = json!(subscriber);
    v["report_noise_address_families"] = json!(wire::NOISE_FAMILIES.iter().map(|c| c.load(std::sync::atomic::Ordering::Relaxed)).collect::<Vec<_>>());
    let out = arg_str(&map, "out", "");
    if out.is_empty() {
        println!("{}", vworld::serde_json::to_string_pretty(&v).unwrap());
    } else {
        vworld::write_json(&out, &v);
    }
}

//! C13 (i): the real ClockErrorBoundPoller (real chrony-candm client, real unix datagram socket)
//! against a scripted in-process chronyd, one real loop iteration per script step, under a virtual
//! Instant. Must run inside a private mount namespace with a tmpfs on /run (see vlib/sandbox.py).

use std::os::unix::net::UnixDatagram;
use std::sync::atomic::{AtomicBool, AtomicI64, AtomicUsize, Ordering};
use std::sync::{Arc, Mutex};
use std::time::Duration;

use clock_bound_d::channels::new_channel_web;
use clock_bound_d::thread_manager::Context;
use clock_bound_d::verif_chrony_poller::run_poller_real;
use clock_bound_d::{ChannelId, Message};
use vworld::serde_json::Value;
use vworld::{clock, json, Rng};

use crate::wire::{bits_of_f64, float_bits, reply_bytes, Report};
use crate::{violation, Args, NS, T0_REAL_S};

const SOCK: &str = "/var/run/chrony/chronyd.sock";
const PHC_REFID: u32 = 0x5048_4330;
const PHC_FILE: &str = "/var/run/chrony/phc_error_bound";

#[derive(Debug, Clone, Copy, PartialEq)]
enum Action {
    Answer,
    /// The socket is gone: the query fails at once.
    Vanish,
    /// chronyd reads the request and says nothing: three real one-second timeouts.
    Silent,
    /// chronyd answers with something that is not tracking data.
    WrongReply,
    /// chronyd answers with a tracking reply carrying another sequence number than the request's.
    BadSeq,
    /// chronyd's tracking reply is cut after this many bytes (28 = header only ... 103).
    Truncated(u8),
    /// chronyd's reply announces another protocol version.
    BadVersion,
    /// chronyd answers, but only this many real milliseconds after the request reached it: the
    /// client has retransmitted by then, and chronyd answers the retransmission as well.
    SlowAnswer(u32),
}

struct Shared {
    mono_ns: AtomicI64,
    step: AtomicUsize,
    script: Mutex<Vec<(i64, Action, i64)>>,
    latency_ns: AtomicI64,
    /// CLOCK_REALTIME = T0 + monotonic + this offset; the offset jumps when the wall clock is stepped.
    real_offset_ns: AtomicI64,
    rt_steps: Mutex<Vec<i64>>,
    /// Time spent suspended so far (CLOCK_BOOTTIME = monotonic + this), and per step how long the
    /// machine was suspended right before it.
    boot_offset_ns: AtomicI64,
    suspend_steps: Mutex<Vec<i64>>,
    /// Per step: what the PHC error-bound file holds (None: the file is absent), when PHC is configured.
    phc_plan: Mutex<Vec<Option<i64>>>,
    /// Per step: (errno, how many reads) the reads of the PHC error-bound file fail with.
    phc_read_failures: Mutex<Vec<(i32, u32)>>,
    socket: Mutex<Option<UnixDatagram>>,
    mode: Mutex<Action>,
    stop: AtomicBool,
    coarse_reads: AtomicUsize,
    /// Requests received by the scripted chronyd during the current step.
    requests_this_step: AtomicUsize,
}

fn bind_socket(sh: &Shared) {
    let _ = std::fs::remove_file(SOCK);
    let s = UnixDatagram::bind(SOCK).expect("bind chronyd.sock (is /run a private tmpfs?)");
    s.set_nonblocking(true).unwrap();
    *sh.socket.lock().unwrap() = Some(s);
}

fn server(sh: Arc<Shared>) {
    let mut buf = [0u8; 1500];
    while !sh.stop.load(Ordering::SeqCst) {
        let got = {
            let guard = sh.socket.lock().unwrap();
            match guard.as_ref() {
                Some(s) => match s.recv_from(&mut buf) {
                    Ok((n, addr)) => Some((n, addr, s.try_clone().unwrap())),
                    Err(_) => None,
                },
                None => None,
            }
        };
        match got {
            Some((n, addr, sock)) if n >= 12 => {
                let mode = *sh.mode.lock().unwrap();
                sh.requests_this_step.fetch_add(1, Ordering::SeqCst);
                // chronyd is slow: virtual time passes between the request and the reply (or the
                // timeouts). Applied once per step.
                let lat = sh.latency_ns.swap(0, Ordering::SeqCst);
                if lat > 0 {
                    sh.mono_ns.fetch_add(lat, Ordering::SeqCst);
                }
                let seq = u32::from_be_bytes(buf[8..12].try_into().unwrap());
                // the reply is tagged with the step it answers (stratum field)
                let tag = ((sh.step.load(Ordering::SeqCst) as u32).wrapping_sub(1) & 0xffff) as u16;
                // (the root delay differs from poll to poll: a report can be told from its neighbours)
                let r = report_of(tag);
                if let Action::SlowAnswer(ms) = mode {
                    if sh.requests_this_step.load(Ordering::SeqCst) == 1 {
                        std::thread::sleep(Duration::from_millis(ms as u64));
                    }
                }
                match mode {
                    Action::Answer | Action::SlowAnswer(_) => {
                        if let Some(p) = addr.as_pathname() {
                            let mut b = reply_bytes(&r, seq);
                            b[52..54].copy_from_slice(&tag.to_be_bytes());
                            let _ = sock.send_to(&b, p);
                        }
                    }
                    Action::BadSeq | Action::Truncated(_) | Action::BadVersion => {
                        if let Some(p) = addr.as_pathname() {
                            let mut b = reply_bytes(&r, if mode == Action::BadSeq { seq.wrapping_add(1) } else { seq });
                            b[52..54].copy_from_slice(&tag.to_be_bytes());
                            if mode == Action::BadVersion {
                                b[0] = 5;
                            }
                            if let Action::Truncated(n) = mode {
                                b.truncate(n as usize);
                            }
                            let _ = sock.send_to(&b, p);
                        }
                    }
                    Action::WrongReply => {
                        if let Some(p) = addr.as_pathname() {
                            // A well-formed reply of another kind: RPY_NULL (1), header only.
                            let mut b = reply_bytes(&r, seq);
                            b.truncate(28);
                            b[6..8].copy_from_slice(&1u16.to_be_bytes());
                            let _ = sock.send_to(&b, p);
                        }
                    }
                    _ => {}
                }
            }
            _ => std::thread::sleep(Duration::from_micros(50)),
        }
    }
}

/// What chronyd says at the poll with this tag: every field the writer classifies or computes with
/// differs from poll to poll (leap status 0..3, update intervals including 0 right after a non-zero
/// one, reference times a few seconds in the past or the future that stay the same for four polls in a row, offsets of either sign), so that a
/// poller which repairs, remembers or substitutes any of them is told from one that passes the
/// report on as it came.
fn report_of(tag: u16) -> Report {
    let t = tag as i64;
    Report {
        ref_id: PHC_REFID,
        leap: [0u16, 0, 1, 0, 2, 3, 0, 0][(t % 8) as usize],
        // (as with chronyd, whose reference time moves once per clock update, not once per poll: the same
        // for four polls in a row - a poller that keys anything on it must not go stale in between)
        ref_time_ns: T0_REAL_S as i128 * NS + (((t / 4) % 11) - 7) as i128 * 700_000_000,
        correction_bits: float_bits(if t % 3 == 0 { -1 } else { 1 } * ((1 << 12) + t % 77), 0),
        delay_bits: delay_bits_of(tag),
        dispersion_bits: float_bits((1 << 12) + t % 13, 0),
        interval_bits: bits_of_f64([16.0f64, 0.0, 1.0, 0.0, 1024.0, 64.0, 0.0, 0.125, 16.0][((t / 2) % 9) as usize]),
    }
}

fn delay_bits_of(tag: u16) -> u32 {
    float_bits((1 << 12) + (tag as i64 % 1000), 0)
}

fn kind_of(m: &Message) -> &'static str {
    match m {
        Message::ClockErrorBoundData(_) => "ClockErrorBoundData",
        Message::ChronyNotRespondingGracePeriod => "ChronyNotRespondingGracePeriod",
        Message::ChronyNotResponding => "ChronyNotResponding",
        Message::PhcErrorBoundRetrievalFailedGracePeriod => "PhcErrorBoundRetrievalFailedGracePeriod",
        Message::PhcErrorBoundRetrievalFailed => "PhcErrorBoundRetrievalFailed",
        _ => "other",
    }
}

fn gen_script(rng: &mut Rng, with_silent: bool, with_slow: bool) -> (i64, Vec<(i64, Action, i64)>) {
    let t_start: i64 = *rng.pick(&[3i64, 100, 5000]) * NS as i64 + rng.range(0, 999_999_999);
    let mut t = t_start;
    let mut last_good: Option<i64> = None;
    let mut out = Vec::new();
    let n = 4 + rng.below(10);
    for i in 0..n {
        let fail = |rng: &mut Rng| -> Action {
            match rng.below(if with_silent { 12 } else { 8 }) {
                0 => Action::WrongReply,
                1 => Action::BadSeq,
                2 => Action::Truncated(*rng.pick(&[28u8, 40, 52, 54, 60, 92, 100, 103])),
                3 => Action::BadVersion,
                8.. => Action::Silent,
                _ => Action::Vanish,
            }
        };
        let act = if i == 0 && rng.chance(1, 2) { fail(rng) } else if rng.chance(1, 2) { Action::Answer } else { fail(rng) };
        // Place the step relative to the threshold when it is a failure after a good answer.
        let dt: i64 = match (act, last_good) {
            (Action::Answer, _) => if rng.chance(1, 6) { rng.range(1_000_000, 90_000_000) } else { 1_000_000_000 + rng.range(0, 10_000_000) },
            (_, Some(g)) => {
                let target = g + match rng.below(6) { 0 => 5 * NS as i64 - 1, 1 => 5 * NS as i64, 2 => 5 * NS as i64 + 1, 3 => rng.range(0, 5_000_000_000 - 2), 4 => rng.range(5_000_000_001, 600_000_000_000), _ => 1_000_000_000 };
                (target - t).max(0)
            }
            (_, None) => match rng.below(3) { 0 => 0, 1 => rng.range(0, 4_999_999_999), _ => rng.range(0, 100_000_000_000) },
        };
        t += dt;
        // Time that passes while chronyd holds the request (none when the socket is gone).
        let lat: i64 = if act == Action::Vanish { 0 } else { match rng.below(4) { 0 => rng.range(1, 4_000_000_000), 1 => rng.range(1, 50_000_000), _ => 0 } };
        if act == Action::Answer {
            last_good = Some(t + lat);
        }
        out.push((t, act, lat));
        t += lat;
    }
    if with_slow {
        // one late answer somewhere, followed by at least one ordinary poll
        let at = rng.below(out.len() as u64 - 1) as usize;
        out[at].1 = Action::SlowAnswer(*rng.pick(&[1200u32, 1500, 1900, 2300, 2700]));
        out[at + 1].1 = Action::Answer;
        if at + 2 < out.len() && rng.chance(1, 2) {
            out[at + 2].1 = Action::Answer;
        }
    }
    (t_start, out)
}

/// `n` polls one virtual second apart, all answered, then alternating short silences and answers.
fn gen_long_script(n: usize) -> (i64, Vec<(i64, Action, i64)>) {
    let t_start: i64 = 100 * NS as i64;
    let mut t = t_start;
    let mut out = Vec::new();
    for i in 0..n + 24 {
        t += 1_000_000_000 + (i as i64 % 7) * 1000;
        let act = if i < n { Action::Answer } else { match (i - n) % 6 { 0 | 1 | 2 => Action::Vanish, 3 => Action::Answer, 4 => Action::BadSeq, _ => Action::Answer } };
        out.push((t, act, 0));
    }
    (t_start, out)
}

pub fn run(a: &Args) -> Value {
    if std::fs::create_dir_all("/var/run/chrony").is_err() || std::fs::metadata("/var/run/chrony/.verif-private").is_err() {
        return json!({"inconclusive": "not inside the private /run namespace (marker /var/run/chrony/.verif-private missing)", "evaluations": 0, "violations": []});
    }
    let with_silent = a.map.get("silent").map(|s| s == "1").unwrap_or(false);
    let with_slow = a.map.get("slow").map(|s| s == "1").unwrap_or(false);
    // One long life of a single poller (thousands of polls): state that accumulates.
    let mut long_n: usize = a.map.get("long").and_then(|s| s.parse().ok()).unwrap_or(0);
    let sh = Arc::new(Shared { mono_ns: AtomicI64::new(0), latency_ns: AtomicI64::new(0), real_offset_ns: AtomicI64::new(0), rt_steps: Mutex::new(Vec::new()), boot_offset_ns: AtomicI64::new(0), suspend_steps: Mutex::new(Vec::new()), phc_plan: Mutex::new(Vec::new()), phc_read_failures: Mutex::new(Vec::new()), step: AtomicUsize::new(0), script: Mutex::new(Vec::new()), socket: Mutex::new(None), mode: Mutex::new(Action::Answer), stop: AtomicBool::new(false), coarse_reads: AtomicUsize::new(0), requests_this_step: AtomicUsize::new(0) });
    // Virtual clock: every CLOCK_MONOTONIC_COARSE read of a virtual thread starts the next step.
    {
        let sh = sh.clone();
        clock::install(Box::new(move |clk| {
            if clk == libc::CLOCK_MONOTONIC_COARSE {
                sh.coarse_reads.fetch_add(1, Ordering::SeqCst);
                let k = sh.step.fetch_add(1, Ordering::SeqCst);
                sh.requests_this_step.store(0, Ordering::SeqCst);
                let script = sh.script.lock().unwrap();
                if let Some((t, act, lat)) = script.get(k).cloned() {
                    drop(script);
                    sh.mono_ns.store(t, Ordering::SeqCst);
                    sh.latency_ns.store(lat, Ordering::SeqCst);
                    let step = sh.rt_steps.lock().unwrap().get(k).cloned().unwrap_or(0);
                    sh.real_offset_ns.fetch_add(step, Ordering::SeqCst);
                    // suspended before this poll: wall clock and CLOCK_BOOTTIME moved on, the monotonic clock did not
                    let slept = sh.suspend_steps.lock().unwrap().get(k).cloned().unwrap_or(0);
                    sh.real_offset_ns.fetch_add(slept, Ordering::SeqCst);
                    sh.boot_offset_ns.fetch_add(slept, Ordering::SeqCst);
                    // the device's error bound as of this poll (rewritten in place, or gone)
                    if let Some(plan) = sh.phc_plan.lock().unwrap().get(k).cloned() {
                        match plan {
                            Some(v) => {
                                use std::io::Write;
                                if let Ok(mut f) = std::fs::OpenOptions::new().write(true).create(true).truncate(true).open(PHC_FILE) {
                                    let _ = writeln!(f, "{}", v);
                                }
                            }
                            None => {
                                let _ = std::fs::remove_file(PHC_FILE);
                            }
                        }
                    }
                    // (this closure runs on the poller's own thread: the failures are armed for it)
                    let (fe, fn_) = sh.phc_read_failures.lock().unwrap().get(k).cloned().unwrap_or((0, 0));
                    if fe == -1 {
                        // short reads: each read() of the file returns at most fn_ bytes
                        vworld::meter::fail_reads_of(PHC_FILE, 0, 0);
                        vworld::meter::short_reads_of(PHC_FILE, fn_ as usize);
                    } else {
                        vworld::meter::short_reads_of(PHC_FILE, 0);
                        vworld::meter::fail_reads_of(PHC_FILE, fe, fn_);
                    }
                    *sh.mode.lock().unwrap() = act;
                    match act {
                        Action::Vanish => {
                            let _ = std::fs::remove_file(SOCK);
                        }
                        _ => {
                            if std::fs::metadata(SOCK).is_err() {
                                bind_socket(&sh);
                            }
                        }
                    }
                }
            }
            let v = if clk == libc::CLOCK_REALTIME || clk == libc::CLOCK_REALTIME_COARSE {
                T0_REAL_S * NS as i64 + sh.mono_ns.load(Ordering::SeqCst) + sh.real_offset_ns.load(Ordering::SeqCst)
            } else if clk == libc::CLOCK_BOOTTIME || clk == libc::CLOCK_BOOTTIME_ALARM {
                sh.mono_ns.load(Ordering::SeqCst) + sh.boot_offset_ns.load(Ordering::SeqCst)
            } else {
                sh.mono_ns.load(Ordering::SeqCst)
            };
            (v.div_euclid(NS as i64), v.rem_euclid(NS as i64))
        }));
    }
    bind_socket(&sh);
    let srv = {
        let sh = sh.clone();
        std::thread::spawn(move || server(sh))
    };
    let mut rng = Rng::new(a.seed ^ 0xC13 ^ a.shard << 40);
    let mut violations = Vec::new();
    let mut evaluations = 0u64;
    let mut steps = 0u64;
    let mut kinds: std::collections::BTreeMap<String, u64> = Default::default();
    let mut edges: std::collections::BTreeMap<String, u64> = Default::default();
    let mut distinct = std::collections::HashSet::new();
    let mut samples = Vec::new();
    let mut inconclusive: Option<String> = None;
    let mut k = a.shard;
    let max_seconds: u64 = a.map.get("max-seconds").and_then(|s| s.parse().ok()).unwrap_or(240);
    let started = std::time::Instant::now();
    let mut cut_short = false;
    while k < a.count {
        if started.elapsed().as_secs() > max_seconds {
            // real seconds are spent only when the client sits out timeouts: stop generating, say so
            cut_short = true;
            break;
        }
        k += a.nshards;
        let long_now = long_n > 0;
        let (t_start, script) = if long_now { gen_long_script(long_n) } else { gen_script(&mut rng, with_silent, with_slow) };
        long_n = 0;
        distinct.insert(format!("{:?}", script));
        *sh.script.lock().unwrap() = script.clone();
        // The wall clock is stepped now and then (chronyd makestep, VM resume): the grace period is
        // a matter of elapsed (monotonic) time only.
        *sh.rt_steps.lock().unwrap() = (0..script.len()).map(|_| if long_now { 0 } else { match rng.below(10) { 0 => -60_000_000_000, 1 => 4_000_000_000, 2 => -4_000_000_000, 3 => 3_600_000_000_000, _ => 0 } }).collect();
        sh.real_offset_ns.store(0, Ordering::SeqCst);
        sh.boot_offset_ns.store(0, Ordering::SeqCst);
        *sh.suspend_steps.lock().unwrap() = (0..script.len()).map(|_| if !long_now && rng.chance(1, 12) { *rng.pick(&[1_500_000_000i64, 30_000_000_000, 3_600_000_000_000]) } else { 0 }).collect();
        let n_susp = sh.suspend_steps.lock().unwrap().iter().filter(|s| **s > 0).count() as u64;
        *kinds.entry("suspends-before-a-poll".to_string()).or_insert(0) += n_susp;
        let with_phc = long_now || rng.chance(1, 2);
        let phc_plan: Vec<Option<i64>> = if long_now { vec![Some(12345); script.len()] } else if with_phc { (0..script.len()).map(|_| if rng.chance(1, 8) { None } else { Some(*rng.pick(&[0i64, 1, 250, 12345, 31_000, 3_000_000])) }).collect() } else { Vec::new() };
        *sh.phc_plan.lock().unwrap() = phc_plan.clone();
        // Reads of the file failing: once or twice (an implementation may retry), or throughout the poll.
        let read_failures: Vec<(i32, u32)> = (0..script.len()).map(|i| if long_now {
            // the attribute cannot be read for 340 polls in a row, then it can again
            if (10..350).contains(&i) { (libc::EIO, 1000) } else { (0, 0) }
        } else if with_phc && rng.chance(1, 8) {
            // the value arrives in pieces of 1, 2 or 3 bytes
            (-1, 1 + rng.below(3) as u32)
        } else if with_phc && rng.chance(1, 5) {
            let times = *rng.pick(&[1u32, 2, 1000, 1000]);
            (if times >= 1000 { *rng.pick(&[libc::EAGAIN, libc::EBUSY, libc::ENOMEM, libc::EIO, libc::EACCES, libc::ENODEV]) } else { *rng.pick(&[libc::EINTR, libc::EAGAIN, libc::EBUSY, libc::EIO]) }, times)
        } else { (0, 0) }).collect();
        *sh.phc_read_failures.lock().unwrap() = read_failures.clone();
        let _ = std::fs::remove_file(PHC_FILE);
        sh.step.store(0, Ordering::SeqCst);
        sh.mono_ns.store(t_start, Ordering::SeqCst);
        if std::fs::metadata(SOCK).is_err() {
            bind_socket(&sh);
        }
        let (mut mailbox, dbox) = new_channel_web::<ChannelId, Message>(vec![ChannelId::ClockErrorBoundPoller, ChannelId::ShmWriter]);
        let pmbox = mailbox.get_mailbox(&ChannelId::ClockErrorBoundPoller).unwrap();
        let smbox = mailbox.get_mailbox(&ChannelId::ShmWriter).unwrap();
        for _ in 0..script.len() - 1 {
            dbox.send(&ChannelId::ClockErrorBoundPoller, Message::ChronyNotRespondingGracePeriod).unwrap();
        }
        dbox.send(&ChannelId::ClockErrorBoundPoller, Message::ThreadAbort).unwrap();
        let ctx = Context { channel_id: ChannelId::ClockErrorBoundPoller, mbox: pmbox, dbox: dbox.clone() };
        let h = std::thread::spawn(move || {
            clock::set_thread_virtual(true);
            let phc = if with_phc { Some(clock_bound_d::PhcInfo { refid: PHC_REFID, sysfs_error_bound_path: std::path::PathBuf::from(PHC_FILE) }) } else { None };
            run_poller_real(ctx, phc, Duration::from_millis(1));
        });
        // Watchdog in real time: 5 s per silent step, 2 s otherwise.
        // (a client may also sit out its three one-second timeouts on a reply it cannot use)
        let budget = script.iter().map(|(_, a, _)| match a { Action::Silent | Action::BadSeq | Action::Truncated(_) | Action::BadVersion | Action::WrongReply => 5, Action::SlowAnswer(_) => 6, _ => 2 }).sum::<u64>() + 5;
        let (tx, rx) = std::sync::mpsc::channel();
        std::thread::spawn(move || {
            let _ = h.join();
            let _ = tx.send(());
        });
        if rx.recv_timeout(Duration::from_secs(budget)).is_err() {
            inconclusive = Some("poller loop did not finish within its real-time budget".into());
            break;
        }
        let msgs: Vec<Message> = smbox.try_iter().collect();
        evaluations += 1;
        let mut last_good = t_start - 5 * NS as i64;
        if msgs.len() != script.len() {
            violation(&mut violations, a, "C13", "message-count", format!("{} loop iterations delivered {} messages (script {:?})", script.len(), msgs.len(), script), json!({"t_start": t_start, "script": format!("{:?}", script)}));
            continue;
        }
        for (i, ((t, act, lat), m)) in script.iter().zip(msgs.iter()).enumerate() {
            steps += 1;
            let got = kind_of(m);
            // The grace period is judged when the query is over, i.e. `lat` after the step began.
            let t_end = *t + *lat;
            let phc_now: Option<Option<i64>> = phc_plan.get(i).cloned();
            let answered = matches!(act, Action::Answer | Action::SlowAnswer(_));
            let (fail_errno, fail_times) = read_failures.get(i).cloned().unwrap_or((0, 0));
            let file_there = matches!(phc_now, Some(Some(_)));
            let mut expected = match act {
                // the PHC is the reference of every answer: unreadable file -> not a measurement (an
                // answer was just received, so within the grace period)
                Action::Answer | Action::SlowAnswer(_) => if let Some(None) = phc_now { "PhcErrorBoundRetrievalFailedGracePeriod" } else { "ClockErrorBoundData" },
                _ => if t_end - last_good < 5 * NS as i64 { "ChronyNotRespondingGracePeriod" } else { "ChronyNotResponding" },
            };
            if answered && file_there && fail_errno == -1 {
                *kinds.entry(format!("phc-short-reads-of-{}-bytes", fail_times)).or_insert(0) += 1;
            } else if answered && file_there && fail_times > 0 {
                *kinds.entry(format!("phc-read-fails-errno{}-x{}", fail_errno, fail_times)).or_insert(0) += 1;
                if fail_times >= 1000 {
                    // no read of this poll succeeded: there is no PHC bound to publish
                    expected = "PhcErrorBoundRetrievalFailedGracePeriod";
                } else if got == "PhcErrorBoundRetrievalFailedGracePeriod" {
                    // a transient failure: giving up at once or retrying are both fine; a
                    // measurement, if sent, is checked below like any other
                    expected = got;
                }
            }
            *kinds.entry(format!("{:?}->{}", act, got)).or_insert(0) += 1;
            if !answered {
                let d = t_end - last_good - 5 * NS as i64;
                let edge = if i == 0 && last_good == t_start - 5 * NS as i64 { "start-up" } else if d == -1 { "5s-1ns" } else if d == 0 { "5s" } else if d == 1 { "5s+1ns" } else if d < 0 { "inside" } else { "beyond" };
                *edges.entry(edge.to_string()).or_insert(0) += 1;
            }
            if got != expected {
                violation(&mut violations, a, "C13", "real-poller-message-class", format!("step {} {:?} begun at monotonic {} ns, query over {} ns later, last good answer at {} ns ({} ns before the query was over), poller created at {} ns: message {} expected {}", i, act, t, lat, last_good, t_end - last_good, t_start, got, expected),
                          json!({"t_start": t_start, "script": format!("{:?}", script), "messages": msgs.iter().map(kind_of).collect::<Vec<_>>()}));
            }
            if let Message::ClockErrorBoundData((tr, phc, as_of)) = m {
                let as_of_ns = as_of.tv_sec as i64 * NS as i64 + as_of.tv_nsec as i64;
                let want_phc = match phc_now { Some(Some(v)) => v, _ => 0 };
                if as_of_ns != *t || *phc != want_phc {
                    violation(&mut violations, a, "C13", "real-poller-measurement", format!("step {} answer at monotonic {} ns: message as_of {} ns, PHC bound {} (the PHC error-bound file holds {:?} at this poll), ref id {:#x}", i, t, as_of_ns, phc, phc_now, tr.ref_id), json!({"script": format!("{:?}", script)}));
                }
                if f64::from(tr.root_delay) != crate::wire::f64_of_bits(delay_bits_of(i as u16)) {
                    violation(&mut violations, a, "C12", "report-not-from-this-poll", format!("step {} (as_of {} ns): the measurement message carries root delay {} s, chronyd's reply to this poll's request said {} s — the values are those of another poll's reply", i, as_of_ns, f64::from(tr.root_delay), crate::wire::f64_of_bits(delay_bits_of(i as u16))), json!({"script": format!("{:?}", script)}));
                }
                if tr.stratum == (i as u16) {
                    let want = crate::wire::tracking_of(&report_of(i as u16));
                    let same = tr.ref_id == want.ref_id && tr.leap_status == want.leap_status && tr.ref_time == want.ref_time && tr.current_correction == want.current_correction
                        && tr.root_delay == want.root_delay && tr.root_dispersion == want.root_dispersion && tr.last_update_interval == want.last_update_interval;
                    *kinds.entry("reports-compared-field-by-field".to_string()).or_insert(0) += 1;
                    if !same {
                        violation(&mut violations, a, "C10", "report-altered-by-the-poller", format!("step {}: chronyd's reply said leap {} ref_time {:?} correction {} delay {} dispersion {} interval {}; the measurement message handed to the writer says leap {} ref_time {:?} correction {} delay {} dispersion {} interval {}", i,
                            want.leap_status, want.ref_time, f64::from(want.current_correction), f64::from(want.root_delay), f64::from(want.root_dispersion), f64::from(want.last_update_interval),
                            tr.leap_status, tr.ref_time, f64::from(tr.current_correction), f64::from(tr.root_delay), f64::from(tr.root_dispersion), f64::from(tr.last_update_interval)), json!({"script": format!("{:?}", script)}));
                    }
                }
                if tr.stratum != (i as u16) {
                    violation(&mut violations, a, "C12", "report-not-from-this-poll", format!("step {} (as_of {} ns): the measurement message carries chronyd's reply to the request of step {} — its as_of was not read before the request that produced the report", i, as_of_ns, tr.stratum), json!({"script": format!("{:?}", script)}));
                }
            }
            if answered {
                last_good = t_end;
            }
        }
        if samples.len() < 2 {
            samples.push(json!({"poller_created_at_ns": t_start, "script": script.iter().map(|(t, a, l)| format!("{}:{:?}+{}", t, a, l)).collect::<Vec<_>>(), "messages": msgs.iter().map(kind_of).collect::<Vec<_>>()}));
        }
    }
    sh.stop.store(true, Ordering::SeqCst);
    let _ = srv.join();
    clock::uninstall();
    let mut v = json!({"phc_short_reads_injected": vworld::meter::SHORT_READS_INJECTED.load(Ordering::Relaxed), "phc_read_failures_injected": vworld::meter::READ_FAILURES_INJECTED.load(Ordering::Relaxed), "evaluations": evaluations, "distinct": distinct.len(), "steps": steps, "kinds": kinds, "threshold_edges": edges, "coarse_reads": sh.coarse_reads.load(Ordering::SeqCst), "violations": violations, "samples": samples});
    v["stopped_early_after_seconds"] = json!(if cut_short { max_seconds } else { 0 });
    if let Some(e) = inconclusive {
        v["inconclusive"] = json!(e);
    }
    v
}

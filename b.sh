#!/bin/bash
# dev helper: build a harness package quickly.  usage: b.sh <pkg> <bin> [features] [dbg]
cd /verif && python3 - "$@" <<'PY'
import sys
sys.path.insert(0,'/verif')
from vlib import common
ctx=common.Ctx('DEV','quick',1)
pkg,b=sys.argv[1],sys.argv[2]
feats=[f for f in (sys.argv[3].split(',') if len(sys.argv)>3 and sys.argv[3] not in ('','-') else [])]
rel = not (len(sys.argv)>4 and sys.argv[4]=='dbg')
try:
    r=ctx.build_harness(pkg,[b],feats or None,release=rel)
    print(r)
except common.Inconclusive as e:
    print("FAILED",e)
PY

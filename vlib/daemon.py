"""Daemon-side checks (C07 C08 C09 C10 C12 C13 C01) through the daemonsim binary."""
import os
from fractions import Fraction

from .common import NPROC, Inconclusive


def build(ctx, release=True):
    return ctx.build_harness("daemonsim", ["daemonsim"], None, release=release)["daemonsim"]


def run_mode(ctx, binary, mode, count, extra=None, timeout=1800, nshards=None, dump=False, seed_salt=0):
    nshards = nshards or NPROC
    cmds, outs = [], []
    for i in range(nshards):
        o = os.path.join(ctx.tmp, "%s-%d-%d.json" % (mode, len(os.listdir(ctx.tmp)), i))
        d = o + ".dump"
        outs.append((o, d))
        c = [binary, mode, "--seed", str(ctx.seed * 1000 + seed_salt), "--count", str(count), "--shard", "%d/%d" % (i, nshards), "--out", o, "--replays", ctx.replay_dir]
        if dump:
            c += ["--dump", d]
        cmds.append(c + (extra or []))
    res = ctx.run_parallel(cmds, timeout)
    import json
    parts = []
    for (rc, text), (o, d) in zip(res, outs):
        if rc == 0 and os.path.exists(o):
            j = json.load(open(o))
            j["_dump"] = d
            parts.append(j)
        elif rc is not None and -rc in (4, 6, 7, 8, 11):
            ctx.log("%s shard killed by signal %d" % (mode, -rc))
            parts.append({"_crashed": -rc, "_cmd": "%s %s" % (os.path.basename(binary), mode), "_dump": d})
        else:
            ctx.log("%s shard did not finish (rc=%s): %s" % (mode, rc, text[-800:]))
            parts.append(None)
    return parts


def merge(parts, sum_keys=("evaluations", "distinct"), dict_keys=("cells", "stats", "kinds")):
    agg = {k: 0 for k in sum_keys}
    for k in dict_keys:
        agg[k] = {}
    viol, samples = [], []
    lost = 0
    incon = None
    from .shm import crash_violations
    viol += crash_violations(parts)
    for p in parts:
        if p is None:
            lost += 1
            continue
        if p.get("_crashed"):
            continue
        if p.get("inconclusive"):
            incon = p["inconclusive"]
        for k in sum_keys:
            agg[k] += p.get(k, 0)
        for k in dict_keys:
            for kk, vv in p.get(k, {}).items():
                agg[k][kk] = agg[k].get(kk, 0) + vv
        viol += p.get("violations", [])
        samples += p.get("samples", [])[:1]
    agg["shards_lost"] = lost
    return agg, viol, samples, incon


# ---------------------------------------------------------------- chrony float, from chrony's documented layout
def decode_float(bits):
    """7-bit signed exponent in the top bits, 25-bit signed coefficient: value = coef * 2^(exp-25). Exact."""
    exp = bits >> 25
    if exp >= 64:
        exp -= 128
    coef = bits & 0x1FFFFFF
    if coef >= 1 << 24:
        coef -= 1 << 25
    return Fraction(coef) * (Fraction(2) ** (exp - 25))


def c07_judge(o_bits, delay_bits, disp_bits, phc, bound):
    """README formula on the wire values, exact: E = (|offset| + dispersion + delay/2) * 1e9 + phc."""
    o, dl, dp = decode_float(o_bits), decode_float(delay_bits), decode_float(disp_bits)
    e = (abs(o) + dp + dl / 2) * 10 ** 9 + phc
    if e > 2 ** 63 - 1 and bound >= 0:
        # the sum has no representation in the record's signed 64-bit field: the largest value it can hold is the only one not below every representable candidate
        if bound != 2 ** 63 - 1:
            return "bound-too-small", "published bound %d ns although |offset| + dispersion + delay/2 + phc = %s ns exceeds the field (offset %s s, dispersion %s s, delay %s s, phc %d): anything but the largest representable value under-states it further" % (bound, float(e), float(o), float(dp), float(dl), phc)
        return None
    if bound < 0:
        return "negative-bound", "published bound %d ns is negative (offset %s s, dispersion %s s, delay %s s, phc %d)" % (bound, float(o), float(dp), float(dl), phc)
    if Fraction(bound) < e * (1 - Fraction(1, 2 ** 50)):
        sig = "negative-offset" if o < 0 else "bound-too-small"
        return sig, "published bound %d ns < |offset| + dispersion + delay/2 (+phc) = %s ns (offset %s s, dispersion %s s, delay %s s, phc %d)" % (bound, float(e), float(o), float(dp), float(dl), phc)
    ceil_e = -((-e.numerator) // e.denominator)
    if bound > ceil_e + 1 + (ceil_e >> 50):
        return "bound-too-large", "published bound %d ns > ceil(%s) + 1 (offset %s s, dispersion %s s, delay %s s, phc %d)" % (bound, float(e), float(o), float(dp), float(dl), phc)
    return None


def run_real_lives(ctx, lives, tolerate_build_failure=False):
    """Long lives (7300 outcomes each) of the daemon's own writer thread entry point in a private /run.
    Returns (violations, info)."""
    import json
    from . import sandbox
    if not sandbox.available():
        return [], {"inconclusive": "unshare -m with a private tmpfs on /run is not available"}
    try:
        b = build(ctx)
    except Exception as e:  # Inconclusive: the tree does not compile with the harness
        if tolerate_build_failure:
            return [], {"skipped": "the daemon harness does not build against this tree (%s)" % e}
        raise
    cmds, outs = [], []
    for i in range(lives):
        o = os.path.join(ctx.tmp, "c08run-%d.json" % i)
        outs.append(o)
        cmds.append(sandbox.wrap([b, "c08run", "--seed", str(ctx.seed * 1000 + 77), "--count", str(lives), "--shard", "%d/%d" % (i, lives), "--out", o, "--replays", ctx.replay_dir]))
    viol, info = [], {"lives": 0, "outcomes": 0}
    for (rc, text), o in zip(ctx.run_parallel(cmds, 900), outs):
        if rc != 0 or not os.path.exists(o):
            info["inconclusive"] = "a long-life run did not finish: %s" % text[-200:]
            continue
        j = json.load(open(o))
        if j.get("inconclusive"):
            info["inconclusive"] = j["inconclusive"]
        info["lives"] += j["evaluations"]
        info["outcomes"] += sum(v for k, v in j.get("stats", {}).items() if k.startswith("outcome-"))
        viol += j["violations"]
    return viol, info

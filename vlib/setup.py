"""MANIFEST.setup_cmd: build everything the checks need once, offline, from files on disk."""
import sys

from . import common


def main():
    ctx = common.Ctx("SETUP", "quick", 1)
    try:
        ctx.ensure_ws()
        ctx.build_harness("shmsim", ["shmsim"], ["hooks"], release=True)
        ctx.build_harness("clientsim", ["clientsim"], None, release=True)
        ctx.build_harness("clientsim", ["clientsim"], None, release=False)
        ctx.build_harness("daemonsim", ["daemonsim"], None, release=True)
        ctx.build_repo(["clock-bound-d", "clock-bound-ffi"], release=True)
        ctx.build_repo(["clock-bound-d"], release=False, features=["verif-hooks"])
        p = ctx.cargo(["miri", "run", "-q", "--offline", "-p", "shmsim", "--bin", "shmmiri", "--features", "hooks", "--", "0", "0", "c02"], "miri", toolchain="+nightly", extra_env={"MIRIFLAGS": "-Zmiri-ignore-leaks"})
        if p.returncode != 0:
            print(p.stdout[-2000:])
            return 1
    except common.Inconclusive as e:
        print("setup failed:", e)
        return 1
    print("setup ok")
    return 0

"""MANIFEST.setup_cmd: build everything the checks need once, offline, from files on disk."""
import sys

from . import common


def main():
    ctx = common.Ctx("SETUP", "quick", 1)
    try:
        ctx.ensure_ws()
        ctx.build_harness("shmsim", ["shmsim"], ["hooks"], release=True)
    except common.Inconclusive as e:
        print("setup failed:", e)
        return 1
    print("setup ok")
    return 0

"""C17 — segment layout and C ABI match their published descriptions."""
import os
import random
import subprocess

from . import c16, client, protocol
from .common import Inconclusive, finish


def run(ctx):
    q = ctx.quick()
    csim = client.build_clientsim(ctx, True)
    cdrv = client.build_cdriver(ctx, sanitize=True)
    viol = []
    samples = []

    # 1. bytes written by the real ShmWriter, decoded with the document's offsets
    n_layout = 20000 if q else 1000000
    dump = os.path.join(ctx.tmp, "layout.txt")
    subprocess.run([csim, "layout", "--seed", str(ctx.seed), "--count", str(n_layout), "--dump", dump], check=True, timeout=900)
    readings = protocol.magic_readings()
    magic_seen = {}
    statuses = {}
    lines = open(dump).read().splitlines()
    gens = set()
    for ln in lines:
        t = ln.split()
        f = [int(x) for x in t[:8]]
        raw = bytes.fromhex(t[8])
        d = protocol.decode(raw)
        why = None
        if len(raw) != 72:
            why = "file is %d bytes, the document says 72" % len(raw)
        elif d["size"] != 72:
            why = "segment size field %d" % d["size"]
        elif d["version"] != 1:
            why = "version field %d" % d["version"]
        elif d["as_of"] != (f[0], f[1]) or d["void_after"] != (f[2], f[3]) or d["bound"] != f[4] or d["max_drift"] != f[5] or d["reserved"] != f[6] or d["status"] != f[7]:
            why = "decoded %s, published as_of=%s void_after=%s bound=%d drift=%d reserved=%d status=%d" % (d, (f[0], f[1]), (f[2], f[3]), f[4], f[5], f[6], f[7])
        elif d["generation"] == 0 or d["generation"] % 2:
            why = "generation field %d after a completed update" % d["generation"]
        name = next((k for k, v in readings.items() if v == raw[:8]), None)
        magic_seen[name] = magic_seen.get(name, 0) + 1
        if name is None:
            why = "magic bytes %s match no reading of the documented 0x41 0x4D 0x5A 0x4E 0x43 0x42 0x02 0x00" % raw[:8].hex()
        statuses[f[7]] = statuses.get(f[7], 0) + 1
        gens.add(d["generation"] if d else -1)
        if why and len(viol) < 10:
            rp = os.path.join(ctx.replay_dir, "C17-layout-%d.txt" % len(viol))
            with open(rp, "w") as fh:
                fh.write(ln + "\n" + why + "\n")
            viol.append({"sig": "layout-mismatch", "detail": why, "replay": rp})
    samples.append({"layout_line": lines[0][:200], "decoded": {k: (v.hex() if isinstance(v, bytes) else v) for k, v in protocol.decode(bytes.fromhex(lines[0].split()[8])).items()}})
    ctx.log("layout: %d files decoded, magic reading found: %s" % (len(lines), magic_seen))

    # 2. same segment, same frozen instant: Rust client vs C library (static lib, ASan+UBSan)
    n2, v2, info = client.c_parity(ctx, csim, cdrv, "C17", 150000 if q else 1000000, ["C17"])
    viol += v2
    ctx.log("static libclockbound parity: %d vectors %s" % (n2, info))
    info_so = None
    n3 = 0
    so = client.build_cdriver(ctx, sanitize=False, shared=True)
    n3, v3, info_so = client.c_parity(ctx, csim, so, "C17", 50000 if q else 500000, ["C17"])
    viol += v3
    ctx.log("shared libclockbound.so parity: %d vectors %s" % (n3, info_so))

    # 3. struct sizes and clock read order as seen from C
    shm = "/dev/shm/cbverif-c17-%d" % os.getpid()
    p = subprocess.run([cdrv, "order", shm], stdout=subprocess.PIPE, stderr=subprocess.STDOUT, text=True, timeout=60)
    try:
        os.unlink(shm)
    except OSError:
        pass
    order_out = p.stdout.strip().splitlines()
    if p.returncode != 0 or not order_out or not order_out[0].startswith("CLOCKS"):
        viol.append({"sig": "c-driver-order-failed", "detail": p.stdout[-400:], "replay": ""})
    samples.append({"c_driver_order": order_out})

    # 4. error parity on failing conditions (files and path kinds): every API, same kind/errno/detail
    rng = random.Random(ctx.seed)
    files = c16.corpus(rng, True)
    d0 = "/dev/shm/cbverif-c17d-%d" % os.getpid()
    os.makedirs(d0, exist_ok=True)
    err_cases = 0
    try:
        paths = []
        for name, content in files:
            pth = os.path.join(d0, name)
            with open(pth, "wb") as f:
                f.write(content)
            paths.append(pth)
        os.makedirs(os.path.join(d0, "a-directory"), exist_ok=True)
        paths += [os.path.join(d0, "missing"), os.path.join(d0, "a-directory"), "/dev/null", os.path.join(d0, "nodir", "shm")]
        pr = c16.run_list(ctx, csim, ["openlist", "--list", "{list}"], paths)
        pc = c16.run_list(ctx, cdrv, ["openlist", "{list}"], paths, {"ASAN_OPTIONS": "halt_on_error=1:detect_leaks=0"})
        rl, cl = pr.stdout.splitlines(), pc.stdout.splitlines()
        if pr.returncode or pc.returncode or len(rl) != len(paths) or len(cl) != len(paths):
            viol.append({"sig": "open-run-crashed", "detail": "rust rc=%d (%d answers) c rc=%d (%d answers) of %d: %s" % (pr.returncode, len(rl), pc.returncode, len(cl), len(paths), (pc.stderr or pr.stderr)[-300:]), "replay": ""})
        else:
            kinds = {}
            for pth, r, c in zip(paths, rl, cl):
                rc_, rd = [x.strip() for x in r.split("||")]
                err_cases += 1
                kinds[c.split()[1] if c.startswith("ERR") else "OPENED"] = kinds.get(c.split()[1] if c.startswith("ERR") else "OPENED", 0) + 1
                if not (rc_ == rd == c.strip()):
                    viol.append({"sig": "error-parity", "detail": "%s: ClockBoundClient '%s' ShmReader '%s' clockbound_open '%s'" % (os.path.basename(pth), rc_, rd, c.strip()), "replay": ""})
            samples.append({"open_outcomes_by_kind": kinds})
        # 4b. the path is the caller's business: the same two files (one valid, one malformed) reached
        # through differently spelled paths must give the same answers from both libraries.
        valid_src = os.path.join(d0, "trunc-72")
        bad_src = os.path.join(d0, "size-71")
        spell = {}
        odd_dirs = ["with space", "donn\u00e9es-utf8", "tab\there", "d" * 200]
        plist, pmeta = [], []
        for dn in odd_dirs:
            dd = os.path.join(d0, dn)
            os.makedirs(dd, exist_ok=True)
            for src, what in ((valid_src, "valid"), (bad_src, "malformed")):
                pth = os.path.join(dd, "shm-" + what)
                os.link(src, pth)
                plist.append(pth)
                pmeta.append((dn, what))
        for src, what in ((valid_src, "valid"), (bad_src, "malformed")):
            plist.append(os.path.join(d0, ".", "a-directory", "..", os.path.basename(src)))
            pmeta.append(("dot-dot", what))
            plist.append(d0 + "//" + os.path.basename(src))
            pmeta.append(("double-slash", what))
        pr = c16.run_list(ctx, csim, ["openlist", "--list", "{list}"], plist + [valid_src, bad_src])
        pc = c16.run_list(ctx, cdrv, ["openlist", "{list}"], plist + [valid_src, bad_src], {"ASAN_OPTIONS": "halt_on_error=1:detect_leaks=0"})
        rl, cl = pr.stdout.splitlines(), pc.stdout.splitlines()
        path_cases = 0
        if pr.returncode or pc.returncode or len(rl) != len(plist) + 2 or len(cl) != len(plist) + 2:
            viol.append({"sig": "open-run-crashed", "detail": "odd path spellings: rust rc=%d (%d answers) c rc=%d (%d answers): %s" % (pr.returncode, len(rl), pc.returncode, len(cl), (pc.stderr or pr.stderr)[-300:]), "replay": ""})
        else:
            ref = {"valid": cl[-2].strip(), "malformed": cl[-1].strip()}
            for (dn, what), r, c in zip(pmeta, rl, cl):
                path_cases += 1
                rc_, rd = [x.strip() for x in r.split("||")]
                if not (rc_ == rd == c.strip() == ref[what]):
                    viol.append({"sig": "path-spelling-changes-answer", "detail": "the %s segment reached through a path spelled '%s': ClockBoundClient '%s' ShmReader '%s' clockbound_open '%s'; through the plain path: '%s'" % (what, dn, rc_, rd, c.strip(), ref[what]), "replay": ""})
            # bytes that are not UTF-8 (a Latin-1 directory name): only a C caller can pass them
            raw_dir = d0.encode() + b"/donn\xe9es-latin1"
            os.makedirs(raw_dir, exist_ok=True)
            for src, what in ((valid_src, "valid"), (bad_src, "malformed")):
                rawp = raw_dir + b"/shm-" + what.encode()
                os.link(src.encode(), rawp)
                po = subprocess.run([cdrv.encode(), b"open", rawp], stdout=subprocess.PIPE, stderr=subprocess.PIPE, timeout=60, env=dict(ctx.env, ASAN_OPTIONS="halt_on_error=1:detect_leaks=0"))
                got = po.stdout.decode(errors="replace").strip()
                path_cases += 1
                if po.returncode != 0 or got != ref[what]:
                    viol.append({"sig": "path-spelling-changes-answer", "detail": "the %s segment reached through a directory whose name is not UTF-8 (bytes %r): clockbound_open '%s' (exit %d); through an ASCII hard link to the same file: '%s'" % (what, rawp[-25:], got, po.returncode, ref[what]), "replay": ""})
        err_cases += path_cases
        # 4c. answers do not depend on how often the process asked before (both libraries)
        many = [os.path.join(d0, n) for n in (("size-71", "ver1-gen0", "trunc-72") if q else ("size-71", "size-16", "ver1-gen0", "trunc-00", "trunc-72", "missing", "a-directory"))]
        sviol, stress, sev = c16.open_stress(ctx, csim, cdrv, many, many, valid_src, simultaneous=0, tag="C17")
        for v in sviol:
            v["sig"] = "repeated-open-" + v["sig"]
        viol += sviol
        err_cases += sev
        samples.append({"repeated_opens": stress, "odd_path_spellings": path_cases})
    finally:
        import shutil
        shutil.rmtree(d0, ignore_errors=True)

    # 3c. stateful parity: one script of segment states (publications, updates in flight, wiped header,
    # restarts), client opens and calls, replayed through both libraries; outputs must be identical.
    rng2 = random.Random(ctx.seed * 31 + 7)
    script = []
    gen = 2
    now_m = 1000
    def rec():
        return "%d %d %d %d %d %d %d" % (now_m, rng2.randrange(10 ** 9), now_m + 1000, 0, rng2.randrange(1, 10 ** 7), rng2.choice([1000, 50000, 0]), rng2.randrange(3))
    script.append("W %d %s" % (gen, rec()))
    script.append("O")
    n_calls = 0
    for _ in range(3000 if q else 60000):
        c = rng2.randrange(12)
        now_m += rng2.choice([0, 0, 1, 1, 3, 7, 1200])
        if c < 3:
            gen = gen + 2 if gen % 2 == 0 else gen + 1
            if gen > 65535:
                gen = 2
            script.append("W %d %s" % (gen, rec()))
        elif c == 3:
            script.append("G %d" % (gen | 1))          # an update is in flight
            gen |= 1
        elif c == 4:
            script.append("V 0")                        # the daemon is re-initialising the segment
            script.append("N %d %d %d %d" % (1700000000 + now_m, 5, now_m, rng2.randrange(10 ** 9)))
            script.append("V 1")
            n_calls += 1
        elif c == 5:
            script.append("G 0")
            script.append("N %d %d %d %d" % (1700000000 + now_m, 5, now_m, rng2.randrange(10 ** 9)))
            script.append("G %d" % gen)
            n_calls += 1
        elif c == 6:
            script.append("O")                          # a client (re)attaches in whatever state this is
        elif c == 7:
            script.append("C")
            script.append("O")
        else:
            script.append("N %d %d %d %d" % (1700000000 + now_m, rng2.randrange(10 ** 9), now_m + rng2.choice([0, 0, 2, 6, 1001]), rng2.randrange(10 ** 9)))
            n_calls += 1
    sp = os.path.join(ctx.tmp, "script.txt")
    with open(sp, "w") as f:
        f.write("\n".join(script) + "\n")
    shm_r = "/dev/shm/cbverif-c17s-r-%d" % os.getpid()
    shm_c = "/dev/shm/cbverif-c17s-c-%d" % os.getpid()
    pr = subprocess.run([csim, "script", "--script", sp, "--shm", shm_r], stdout=subprocess.PIPE, stderr=subprocess.PIPE, text=True, timeout=600)
    pc = subprocess.run([cdrv, "script", sp, shm_c], stdout=subprocess.PIPE, stderr=subprocess.PIPE, text=True, timeout=600, env=dict(ctx.env, ASAN_OPTIONS="halt_on_error=1:detect_leaks=1"))
    for pth in (shm_r, shm_c):
        try:
            os.unlink(pth)
        except OSError:
            pass
    lr, lc = pr.stdout.splitlines(), pc.stdout.splitlines()
    stateful = {"script_lines": len(script), "calls": n_calls, "rust_answers": len(lr), "c_answers": len(lc)}
    if pr.returncode or pc.returncode or len(lr) != len(lc):
        viol.append({"sig": "stateful-parity-run", "detail": "script run: rust rc=%d (%d lines), C rc=%d (%d lines): %s" % (pr.returncode, len(lr), pc.returncode, len(lc), (pc.stderr or pr.stderr)[-300:]), "replay": ""})
    else:
        for k, (x, y) in enumerate(zip(lr, lc)):
            if x != y:
                rp = os.path.join(ctx.replay_dir, "C17-script-%d.txt" % ctx.seed)
                shutil_copy = __import__("shutil").copy
                shutil_copy(sp, rp)
                viol.append({"sig": "stateful-parity", "detail": "answer #%d of the script differs: Rust client '%s', C library '%s'" % (k, x, y), "replay": rp})
                break
    ctx.log("stateful parity script: %s" % stateful)

    # 4a. layout after daemon start-up over pre-existing files: whatever was there, once the daemon
    # has started and published, the bytes must be the documented layout (72-byte segment, size field
    # covering it, the published record at the documented offsets), readable by new clients.
    magic = bytes.fromhex(lines[0].split()[8])[:8]
    lay_files = [f for f in c16.corpus(random.Random(ctx.seed), True) if f[0].startswith(("size-", "trunc-", "ver", "valid-header", "all-", "bad-", "gen0"))]
    lviol, lstats, levals, _ls = c16.repair_phase(ctx, csim, lay_files, magic, [("tmpfs", "/dev/shm/cbverif-c17r-%d" % os.getpid())])
    import shutil as _sh
    _sh.rmtree("/dev/shm/cbverif-c17r-%d" % os.getpid(), ignore_errors=True)
    for v in lviol:
        v = dict(v)
        v["sig"] = "layout-after-startup:" + v["sig"]
        viol.append(v)
    ctx.log("layout after start-up over %d pre-existing files: %s" % (len(lay_files), lstats))

    # 4b. a segment written by the real daemon binary (release, as shipped) in a private /run
    daemon_file = None
    from . import c13real, sandbox
    if sandbox.available():
        judged, _v, tls, tl_incon = c13real.run_timelines(ctx, [[[3.0, "answer"]]])
        import glob
        import json as _json
        outs = sorted(glob.glob(os.path.join(ctx.tmp, "tl-*.json")))
        outs = [o for o in outs if "script" not in o]
        if outs:
            j = _json.load(open(outs[-1]))
            if j.get("final_segment"):
                raw = bytes.fromhex(j["final_segment"])
                d = protocol.decode(raw)
                daemon_file = {"file_size": j["file_size"], "decoded": {k: (v.hex() if isinstance(v, bytes) else v) for k, v in d.items()}}
                ok = (j["file_size"] == 72 and d["magic"] in readings.values() and d["size"] == 72 and d["version"] == 1 and d["generation"] % 2 == 0 and d["generation"] != 0
                      and d["status"] in (0, 1, 2) and d["max_drift"] == 1000 and d["reserved"] == 0 and d["void_after"] == (d["as_of"][0] + 1000, 0))
                if d["status"] == 1:
                    # the stand-in reports offset 10 us, delay 200 us, dispersion 30 us
                    ok = ok and 139000 <= d["bound"] <= 141000 and d["as_of"][0] > 0 and 0 <= d["as_of"][1] < 10 ** 9
                else:
                    daemon_file["note"] = "the daemon had not synchronised within the observation window (loaded machine?): measurement fields not judged"
                if not ok:
                    rp = os.path.join(ctx.replay_dir, "C17-daemon-file.json")
                    with open(rp, "w") as fh:
                        _json.dump(j, fh)
                    viol.append({"sig": "daemon-file-layout", "detail": "segment written by the clockbound binary (chronyd stand-in reporting offset 10 us, delay 200 us, dispersion 30 us; default drift) decodes with PROTOCOL.md offsets to %s (file size %d)" % (daemon_file["decoded"], j["file_size"]), "replay": rp})
        samples.append({"daemon_written_segment": daemon_file})

    # 5. thorough: the C program under valgrind (plain build)
    vg_info = None
    if not q:
        plain = client.build_cdriver(ctx, sanitize=False)
        vin = os.path.join(ctx.tmp, "vin-C17.txt")
        small = os.path.join(ctx.tmp, "vin-small.txt")
        with open(small, "w") as f:
            f.write("".join(open(vin).readlines()[:20000]))
        shm = "/dev/shm/cbverif-c17v-%d" % os.getpid()
        pv = subprocess.run(["valgrind", "-q", "--error-exitcode=99", "--leak-check=full", plain, "vectors", small, shm], stdout=subprocess.PIPE, stderr=subprocess.PIPE, text=True, timeout=1800)
        try:
            os.unlink(shm)
        except OSError:
            pass
        vg_info = {"exit": pv.returncode, "answers": len(pv.stdout.splitlines())}
        if pv.returncode != 0:
            rp = os.path.join(ctx.replay_dir, "C17-valgrind-%d.txt" % ctx.seed)
            with open(rp, "w") as f:
                f.write(pv.stderr[-8000:])
            viol.append({"sig": "valgrind-report", "detail": pv.stderr[-400:], "replay": rp})

    inconclusive = None
    if len(statuses) < 3 or len(gens) < 100:
        inconclusive = "layout run saw %d statuses and %d generations" % (len(statuses), len(gens))
    coverage = {
        "evaluations": len(lines) + n2 + n3 + err_cases + levals,
        "distinct_nontrivial": len(set(lines)) + err_cases,
        "rule": "(1) records with random field values published by the real ShmWriter, the file bytes decoded with offsets/widths/encodings transcribed by hand from docs/PROTOCOL.md (distinct = distinct (record, bytes) lines); "
                "(2) the same vectors through ClockBoundClient and through a C program compiled from clockbound.h only and linked with libclockbound.a (ASan+UBSan, canaries) and libclockbound.so, virtual clock frozen at the same instant: answers must be identical; "
                "(3) struct sizes and clock read order seen from C; (3b) after daemon start-up + publication over pre-existing files (every truncation, header-field edge values) the file is the documented 72-byte layout holding the published record; (4) every failing open condition of the C16 corpus through all three APIs: same kind, errno, detail",
        "samples": samples,
        "magic_reading_found": magic_seen,
        "statuses_published": {str(k): v for k, v in statuses.items()},
        "static_lib": info,
        "shared_lib": info_so,
        "error_parity_cases": err_cases,
        "stateful_parity": stateful,
        "layout_after_startup": lstats,
        "valgrind": vg_info,
        "daemon_written_segment": daemon_file,
    }
    # threads and forked children in a C client (own contexts, handed-over contexts, inherited contexts)
    from . import client as _client
    _mv, _ms = _client.run_mt(ctx, "C17", 2.0 if ctx.quick() else 20.0)
    viol += _mv
    coverage["multi_threaded_c_client"] = _ms
    if any("inconclusive" in str(v) or str(v).startswith("exit ") for v in _ms.values()) and not inconclusive:
        inconclusive = "multi-threaded C client scenario did not complete: %s" % _ms
    finish(ctx, coverage, viol, inconclusive, assumptions=["offsets in vlib/protocol.py were transcribed from docs/PROTOCOL.md by hand", "little-endian x86-64 host only"])


def replay(ctx, path):
    print(open(path).read())
    raise SystemExit(2)

"""C16 — segment files are validated on open, and repaired by the daemon."""
import json
import os
import random
import shutil
import struct
import subprocess
import time

from . import client, protocol
from .common import Inconclusive, finish


def corpus(rng, quick):
    """List of (name, bytes)."""
    valid = protocol.encode((1234, 5678), (2234, 0), 4321, 50000, 0, 1, generation=6)
    out = []
    full = valid + bytes([0xEE] * 8)
    for n in range(0, 81):
        out.append(("trunc-%02d" % n, full[:n]))
    out.append(("all-zero-72", bytes(72)))
    out.append(("all-ff-72", bytes([255] * 72)))
    for i in range(8):
        b = bytearray(valid)
        b[i] ^= 0x01
        out.append(("magic-byte%d-flipped" % i, bytes(b)))
    for name, m in protocol.magic_readings().items():
        b = bytearray(valid)
        b[0:8] = m
        out.append(("magic-as-" + name.replace(" ", "-"), bytes(b)))
    for size in [0, 1, 15, 16, 17, 56, 71, 72, 73, 80, 4096, 65536, 2 ** 31, 2 ** 32 - 1]:
        b = bytearray(valid)
        struct.pack_into("=I", b, 8, size)
        out.append(("size-%d" % size, bytes(b)))
        out.append(("size-%d-hdr-only" % size, bytes(b[:16])))
    for version in [0, 1, 2, 255, 65535]:
        for generation in [0, 1, 2, 3, 65534, 65535]:
            b = bytearray(valid)
            struct.pack_into("=HH", b, 12, version, generation)
            out.append(("ver%d-gen%d" % (version, generation), bytes(b)))
    # two defects at once
    b = bytearray(valid)
    b[0] ^= 0xFF
    struct.pack_into("=I", b, 8, 10)
    out.append(("bad-magic-and-small-size", bytes(b)))
    b = bytearray(valid)
    struct.pack_into("=H", b, 14, 0)
    struct.pack_into("=I", b, 8, 71)
    out.append(("gen0-and-size71", bytes(b)))
    # every pair of header defects (good magic): declared size x version x generation
    for size in [0, 1, 4, 8, 15, 16, 40, 71]:
        for version, generation in [(0, 6), (1, 0), (0, 0)]:
            b = bytearray(valid)
            struct.pack_into("=I", b, 8, size)
            struct.pack_into("=HH", b, 12, version, generation)
            out.append(("size%d-ver%d-gen%d" % (size, version, generation), bytes(b)))
    # an unusable header followed by something that would pass for a header further into the file
    # (the record area holds a header image at offset 16, 32 or 48; the file is long enough for it)
    for hname, (version, generation, flip) in {"ver0-gen0": (0, 0, False), "ver1-gen0": (1, 0, False), "ver0-gen6": (0, 6, False), "bad-magic": (1, 6, True), "zero-header": (None, None, False)}.items():
        for off in (16, 32, 48):
            b = bytearray(valid + bytes(64))
            b[off:off + 16] = valid[:16]
            if version is None:
                b[0:16] = bytes(16)
            else:
                struct.pack_into("=HH", b, 12, version, generation)
            if flip:
                b[3] ^= 0x40
            out.append(("%s-header-image-at-%d" % (hname, off), bytes(b)))
    # header valid, body random / shorter than the record
    for n in [16, 17, 24, 40, 64, 71]:
        out.append(("valid-header-len%d" % n, valid[:n]))
    for k in range(20 if quick else 400):
        n = rng.randrange(0, 257)
        out.append(("random-%d-len%d" % (k, n), bytes(rng.randrange(256) for _ in range(n))))
    for k in range(20 if quick else 400):
        # structured mutation of a valid segment: random body, status kept well-formed
        b = bytearray(valid)
        for off in range(16, 64):
            b[off] = rng.randrange(256)
        struct.pack_into("=i", b, 64, rng.randrange(3))
        struct.pack_into("=H", b, 14, rng.choice([2, 4, 65534, 1, 3, 65535, rng.randrange(1, 65536)]))
        out.append(("valid-random-body-%d" % k, bytes(b)))
    return out


def repair_phase(ctx, csim, files, magic, dirs):
    """Daemon start-up + first publication over each corpus file in each directory; what new clients
    then read. Returns (violations, stats, evaluations, samples)."""
    viol, samples = [], []
    evaluations = 0
    repair_stats = {}
    modes = [None, 0o664, 0o666, 0o660, 0o600, 0o640, 0o644]
    mode_counts = {}
    for di, (dname, d) in enumerate(dirs):
        os.makedirs(d, exist_ok=True)
        rpaths, rmeta = [], []
        for fi, (name, content) in enumerate(files + [("absent", None), ("absent-dir/shm", None)]):
            p = os.path.join(d, "r-" + name)
            if content is not None:
                with open(p, "wb") as f:
                    f.write(content)
                # permission bits of the pre-existing file: whatever the previous owner's umask left
                m = modes[(fi + di + ctx.seed) % len(modes)]
                if m is not None:
                    os.chmod(p, m)
                mode_counts["%03o" % m if m is not None else "default"] = mode_counts.get("%03o" % m if m is not None else "default", 0) + 1
                acc, cls = protocol.expected_open(content, magic)
            else:
                acc, cls = set(), "absent"
            rpaths.append(p)
            rmeta.append((name, content, acc, cls))
        # the daemon's own file-creation mask differs per directory
        um = [0o022, 0o002, 0o000, 0o077][(di + ctx.seed) % 4]
        pr = run_list(ctx, csim, ["repair", "--list", "{list}"], rpaths, umask=um)
        lines = pr.stdout.splitlines()
        if pr.returncode != 0 or len(lines) != len(rpaths):
            rp = os.path.join(ctx.replay_dir, "C16-repair-crash-%s-%d.txt" % (dname, ctx.seed))
            with open(rp, "w") as f:
                f.write(pr.stdout[-3000:] + pr.stderr[-5000:])
            viol.append({"sig": "repair-crash", "detail": "start-up/first publication run on %s exited %d after %d of %d files: %s" % (dname, pr.returncode, len(lines), len(rpaths), pr.stderr[-300:]), "replay": rp})
            continue
        st = {"files": 0, "taken_over": 0, "recreated": 0, "evict_asked": 0, "A_same": 0, "B_same": 0}
        for (name, content, acc, cls), line, p in zip(rmeta, lines, rpaths):
            evaluations += 1
            st["files"] += 1
            tok = line.split()
            if tok[0] != "DONE":
                viol.append({"sig": "startup-failed", "detail": "[%s] daemon start-up over %s failed: %s" % (dname, name, line), "replay": ""})
                continue
            kv = dict(t.split("=", 1) for t in tok[1:])
            st["evict_asked"] += kv["evict"] == "asked"
            st["A_same"] += kv["A"] == "same"
            st["B_same"] += kv["B"] == "same"
            was_openable = acc == {"OPENED"} or cls in ("valid-header-short-file", "huge-declared-size")
            recreated = not was_openable
            st["recreated" if recreated else "taken_over"] += 1
            rec = [int(x) for x in kv["rec"].split(",")]
            save = None

            def keep():
                rp = os.path.join(ctx.replay_dir, "C16-repair-%s-%s.bin" % (dname, name.replace("/", "_")))
                with open(rp, "wb") as f:
                    f.write(content or b"")
                return rp
            if kv["A"] != "same":
                viol.append({"sig": "repair-live-reader-" + cls, "detail": "[%s] after start-up + first publication over %s (%s) a new client while the daemon runs: %s" % (dname, name, cls, kv["A"][:200]), "replay": keep()})
            if kv["B"] != "same":
                sig = "takeover-of-file-shorter-than-segment" if (was_openable and content is not None and len(content) < 72) else "repair-late-reader-" + cls
                viol.append({"sig": sig, "detail": "[%s] after start-up + first publication over %s (%s, %d bytes), daemon gone and page cache dropped, a new client: %s" % (dname, name, cls, len(content or b""), kv["B"][:200]), "replay": keep()})
            if recreated:
                raw = bytes.fromhex(kv["hex"])
                dec = protocol.decode(raw)
                want = {"as_of": (rec[0], rec[1]), "void_after": (rec[2], rec[3]), "bound": rec[4], "max_drift": rec[5], "status": rec[6]}
                ok = int(kv["len"]) == 72 and dec is not None and all(dec[k] == v for k, v in want.items()) and dec["size"] == 72 and dec["version"] != 0 and dec["generation"] not in (0,) and dec["generation"] % 2 == 0
                if not ok:
                    viol.append({"sig": "recreated-file-layout", "detail": "[%s] file re-created over %s is %s bytes and decodes to %s, expected 72 bytes holding %s" % (dname, name, kv["len"], dec, want), "replay": keep()})
        st["daemon_umask"] = "%03o" % um
        # ... and the same start-ups while the file system fills up (the k-th write to the file fails)
        sub = [p for p, (name, content, acc, cls) in zip(rpaths, rmeta) if name in ("absent", "trunc-00", "trunc-08", "trunc-16", "trunc-40", "all-zero-72", "magic-byte0-flipped", "ver1-gen0", "trunc-72", "size-71")]
        # (the first pass repaired them all: put the original contents back)
        for p, (name, content, acc, cls) in zip(rpaths, rmeta):
            if p in sub:
                if content is None:
                    try:
                        os.unlink(p)
                    except OSError:
                        pass
                else:
                    with open(p, "wb") as f:
                        f.write(content)
        pf = run_list(ctx, csim, ["repairfail", "--list", "{list}"], sub, umask=um)
        ff = {"started": 0, "refused": 0, "failures_injected": 0}
        if pf.returncode != 0:
            viol.append({"sig": "repair-crash", "detail": "[%s] start-up with failing writes exited %d: %s" % (dname, pf.returncode, pf.stderr[-300:]), "replay": ""})
        for ln in pf.stdout.splitlines():
            tok = ln.split()
            kv = dict(t.split("=", 1) for t in tok[1:] if "=" in t)
            evaluations += 1
            ff["failures_injected"] += int(kv.get("injected", 0))
            if tok[0] == "REFUSED":
                ff["refused"] += 1
            elif tok[0] == "PANIC":
                viol.append({"sig": "startup-panics-on-write-error", "detail": "[%s] start-up over %s with write() failing (errno %s) from write #%s on: panic" % (dname, os.path.basename(sub[int(kv["file"])]), kv["errno"], kv["after"]), "replay": ""})
            else:
                ff["started"] += 1
                hdr = bytes.fromhex(kv["header"])
                ok_hdr = len(hdr) == 16 and hdr[:8] == magic and struct.unpack_from("=I", hdr, 8)[0] >= 72 and struct.unpack_from("=H", hdr, 12)[0] != 0
                if kv["A"] != "same" or not ok_hdr or int(kv["len"]) < 72:
                    viol.append({"sig": "started-on-a-file-it-could-not-write", "detail": "[%s] start-up over %s with write() failing (errno %s) from write #%s on (%s failures injected): the daemon started and published all the same; a new client then: %s; file length %s, header %s (magic/size/version must be as documented)" % (
                        dname, os.path.basename(sub[int(kv["file"])]), kv["errno"], kv["after"], kv["injected"], kv["A"], kv["len"], kv["header"]), "replay": ""})
        st["startups_with_failing_writes"] = ff
        repair_stats[dname] = st
        if len(samples) < 5:
            samples.append({"repair_dir": dname, "line": lines[16][:300]})
    repair_stats["preexisting_file_modes"] = mode_counts
    return viol, repair_stats, evaluations, samples


def open_stress(ctx, csim, cdrv, paths, many, valid, simultaneous=200, tag="C16"):
    """Failed (and successful) opens leave nothing behind, and what one context holds does not limit
    the next: (1) every path opened 100 times under a descriptor limit of 64; (2) the paths of `many`
    opened more often than the kernel allows mappings per process, through both libraries; (3)
    `simultaneous` contexts held at once by a process without CAP_IPC_LOCK and 64 KiB of lockable
    memory. After each, a valid segment must still open and read. Returns (violations, stats, evaluations)."""
    viol = []
    evaluations = 0
    ps = run_list(ctx, csim, ["openstress", "--list", "{list}", "--valid", valid, "--simultaneous", str(simultaneous)], paths)
    stress_lines = [l for l in ps.stdout.splitlines() if not l.startswith("SIMULTANEOUS")]
    sim = [l for l in ps.stdout.splitlines() if l.startswith("SIMULTANEOUS")]
    stress = {"files": len(stress_lines), "opens_each": 100, "descriptor_limit": 64}
    if ps.returncode != 0 or not stress_lines:
        viol.append({"sig": "openstress-crash", "detail": "repeated opens exited %d: %s" % (ps.returncode, ps.stderr[-300:]), "replay": ""})

    def judge(lines, n, what):
        nonlocal evaluations
        for ln in lines:
            evaluations += 1
            f = [x.strip() for x in ln.split("|")]
            if f[1].split("=", 1)[1] != f[2].split("=", 1)[1] or not f[-1].endswith("OPENED"):
                rp = os.path.join(ctx.replay_dir, "%s-openstress-%s.bin" % (tag, os.path.basename(f[0])))
                if os.path.isfile(f[0]):
                    shutil.copy(f[0], rp)
                viol.append({"sig": "failed-opens-exhaust-" + what, "detail": "opening %s up to %d times in one process: first outcome %s, later outcome %s, %s; a valid segment then: %s" % (os.path.basename(f[0]), n, f[1], f[2], " ".join(f[3:-1]), f[-1]), "replay": rp})
    judge(stress_lines, 100, "descriptors")
    for ln in sim:
        kv = dict(t.split("=", 1) for t in ln.split()[1:])
        stress["simultaneous_contexts"] = int(kv["held"])
        stress["simultaneous_unprivileged"] = kv["unprivileged"] == "1"
        evaluations += 1
        if kv["held"] != kv["asked"]:
            viol.append({"sig": "contexts-limit-each-other", "detail": "a process without CAP_IPC_LOCK (RLIMIT_MEMLOCK 64 KiB) holding contexts on one valid segment: %s of %s opened, then %s" % (kv["held"], kv["asked"], kv["first_error"]), "replay": ""})
    try:
        max_maps = int(open("/proc/sys/vm/max_map_count").read())
    except (OSError, ValueError):
        max_maps = 0
    if many and 0 < max_maps <= 300000:
        n = max_maps + 2000
        pm = run_list(ctx, csim, ["openstress", "--list", "{list}", "--valid", valid, "--repeat", str(n)], many)
        lines = pm.stdout.splitlines()
        if pm.returncode != 0 or not lines:
            viol.append({"sig": "openstress-crash", "detail": "%d opens per file exited %d: %s" % (n, pm.returncode, pm.stderr[-300:]), "replay": ""})
        judge(lines, n, "mappings")
        stress["opens_each_beyond_max_map_count"] = n
        stress["files_beyond_max_map_count"] = len(lines)
        clines = []
        for p in (many if cdrv else []):
            pc = subprocess.run([cdrv, "openmany", p, valid, str(n)], stdout=subprocess.PIPE, stderr=subprocess.PIPE, text=True, timeout=900,
                                env=dict(ctx.env, ASAN_OPTIONS="halt_on_error=1:detect_leaks=0", UBSAN_OPTIONS="halt_on_error=1"))
            if pc.returncode != 0 or not pc.stdout.strip():
                viol.append({"sig": "openstress-crash", "detail": "C library: %d opens of %s exited %d: %s" % (n, os.path.basename(p), pc.returncode, pc.stderr[-300:]), "replay": ""})
                continue
            clines.append(pc.stdout.strip().splitlines()[-1])
        judge(clines, n, "mappings-c-library")
        if cdrv:
            stress["files_beyond_max_map_count_c_library"] = len(clines)
    elif many:
        stress["beyond_max_map_count"] = "skipped: vm.max_map_count = %d" % max_maps
    return viol, stress, evaluations


def run_list(ctx, tool, mode_args, paths, env=None, wrap=None, timeout=900, umask=-1):
    lst = os.path.join(ctx.tmp, "list-%d.txt" % len(os.listdir(ctx.tmp)))
    with open(lst, "w") as f:
        f.write("\n".join(paths) + "\n")
    cmd = (wrap or []) + [tool] + [a.replace("{list}", lst) for a in mode_args]
    e = dict(ctx.env)
    if env:
        e.update(env)
    try:
        p = subprocess.run(cmd, stdout=subprocess.PIPE, stderr=subprocess.PIPE, text=True, timeout=timeout, env=e, umask=umask)
    except subprocess.TimeoutExpired:
        raise Inconclusive("%s did not finish within %d s" % (os.path.basename(tool), timeout))
    return p


def outcome_ok(got, accepted):
    if got in accepted:
        return True
    if "ERR Syscall * mmap SHM segment" in accepted and got.startswith("ERR Syscall ") and got.endswith(" mmap SHM segment"):
        return True
    return False


def real_magic(ctx, csim):
    """The magic number as the real writer lays it down (C17 checks it against the document)."""
    ref = os.path.join(ctx.tmp, "layout-magic.txt")
    subprocess.run([csim, "layout", "--seed", "1", "--count", "1", "--dump", ref], check=True, timeout=60)
    magic = bytes.fromhex(open(ref).read().split()[-1])[:8]
    if magic not in protocol.magic_readings().values():
        raise Inconclusive("the writer's magic bytes %s match no reading of the documented magic (see C17)" % magic.hex())
    return magic


def run(ctx):
    q = ctx.quick()
    rng = random.Random(ctx.seed)
    csim = client.build_clientsim(ctx, True)
    cdrv = client.build_cdriver(ctx, sanitize=True)
    files = corpus(rng, q)
    # The magic number as the real writer lays it down (C17 checks it against the document).
    magic = real_magic(ctx, csim)
    viol = []
    matrix = {}
    dirs = [("tmpfs", "/dev/shm/cbverif-c16-%d" % os.getpid()), ("disk", "/var/tmp/cbverif-c16-%d" % os.getpid())]
    evaluations = 0
    distinct = set()
    samples = []
    try:
        # ---------------------------------------------------------------- open
        d0 = dirs[0][1]
        os.makedirs(d0, exist_ok=True)
        paths, expect = [], []
        for name, content in files:
            p = os.path.join(d0, name)
            with open(p, "wb") as f:
                f.write(content)
            acc, cls = protocol.expected_open(content, magic)
            paths.append(p)
            expect.append((acc, cls, name))
        # path kinds
        os.makedirs(os.path.join(d0, "a-directory"), exist_ok=True)
        kinds = [
            (os.path.join(d0, "missing"), {"ERR Syscall 2 open"}, "missing"),
            (os.path.join(d0, "a-directory"), {"ERR Syscall 21 read SHM segment"}, "directory"),
            ("/dev/null", {"ERR SegmentNotInitialized 0 -"}, "dev-null"),
            (os.path.join(d0, "missing-dir", "shm"), {"ERR Syscall 2 open"}, "missing-directory"),
        ]
        os.symlink(os.path.join(d0, "trunc-72"), os.path.join(d0, "symlink-to-valid"))
        kinds.append((os.path.join(d0, "symlink-to-valid"), {"OPENED"}, "symlink"))
        os.symlink(os.path.join(d0, "nowhere"), os.path.join(d0, "dangling"))
        kinds.append((os.path.join(d0, "dangling"), {"ERR Syscall 2 open"}, "dangling-symlink"))
        os.symlink(os.path.join(d0, "loop-b"), os.path.join(d0, "loop-a"))
        os.symlink(os.path.join(d0, "loop-a"), os.path.join(d0, "loop-b"))
        kinds.append((os.path.join(d0, "loop-a"), {"ERR Syscall 40 open"}, "symlink-loop"))
        kinds.append((os.path.join(d0, "x" * 300), {"ERR Syscall 36 open"}, "name-too-long"))
        kinds.append((os.path.join(d0, "trunc-72", "below-a-file"), {"ERR Syscall 20 open"}, "not-a-directory"))
        for p, acc, cls in kinds:
            paths.append(p)
            expect.append((acc, cls, cls))

        runs = [("rust", csim, ["openlist", "--list", "{list}"], None, None),
                ("c", cdrv, ["openlist", "{list}"], {"ASAN_OPTIONS": "halt_on_error=1:detect_leaks=0", "UBSAN_OPTIONS": "halt_on_error=1"}, None)]
        if not q:
            asan = ctx.build_harness_asan("clientsim", ["clientsim"])["clientsim"]
            runs.append(("rust-asan", asan, ["openlist", "--list", "{list}"], {"ASAN_OPTIONS": "halt_on_error=1:detect_leaks=0:abort_on_error=0"}, None))
            plain = client.build_cdriver(ctx, sanitize=False)
            vg = ["valgrind", "-q", "--error-exitcode=99", "--leak-check=no"]
            runs.append(("rust-valgrind", csim, ["openlist", "--list", "{list}"], None, vg))
            runs.append(("c-valgrind", plain, ["openlist", "{list}"], None, vg))
        answers = {}
        for tag, tool, margs, env, wrap in runs:
            p = run_list(ctx, tool, margs, paths, env, wrap)
            lines = p.stdout.splitlines()
            if p.returncode != 0 or len(lines) != len(paths):
                rp = os.path.join(ctx.replay_dir, "C16-%s-crash-%d.txt" % (tag, ctx.seed))
                with open(rp, "w") as f:
                    f.write("exit %d after %d of %d answers; next path %s\n%s\n%s" % (p.returncode, len(lines), len(paths), paths[min(len(lines), len(paths) - 1)], p.stdout[-2000:], p.stderr[-6000:]))
                viol.append({"sig": "open-crash-" + tag, "detail": "%s open run exited %d after %d of %d files (next: %s): %s" % (tag, p.returncode, len(lines), len(paths), paths[min(len(lines), len(paths) - 1)], p.stderr[-300:]), "replay": rp})
                continue
            answers[tag] = lines
        for idx, (p, (acc, cls, name)) in enumerate(zip(paths, expect)):
            per_api = {}
            if "rust" in answers:
                cl, rd = [x.strip() for x in answers["rust"][idx].split("||")]
                per_api["ClockBoundClient"] = cl
                per_api["ShmReader"] = rd
            if "rust-asan" in answers:
                cl, rd = [x.strip() for x in answers["rust-asan"][idx].split("||")]
                per_api["ClockBoundClient(asan)"] = cl
            if "rust-valgrind" in answers:
                cl, rd = [x.strip() for x in answers["rust-valgrind"][idx].split("||")]
                per_api["ClockBoundClient(valgrind)"] = cl
            if "c" in answers:
                per_api["clockbound_open"] = answers["c"][idx].strip()
            if "c-valgrind" in answers:
                per_api["clockbound_open(valgrind)"] = answers["c-valgrind"][idx].strip()
            evaluations += len(per_api)
            distinct.add(name)
            for api, got in per_api.items():
                matrix.setdefault(cls, {}).setdefault(api, {}).setdefault(got.split()[0] + " " + (got.split()[1] if len(got.split()) > 1 else ""), 0)
                matrix[cls][api][got.split()[0] + " " + (got.split()[1] if len(got.split()) > 1 else "")] += 1
                if not outcome_ok(got, acc):
                    rp = os.path.join(ctx.replay_dir, "C16-open-%s.bin" % name)
                    if os.path.isfile(p):
                        shutil.copy(p, rp)
                    viol.append({"sig": "open-outcome-" + cls, "detail": "%s on %s (%s): got '%s', the statement allows %s" % (api, name, cls, got, sorted(acc)), "replay": rp})
            if len(set(per_api.values())) > 1:
                viol.append({"sig": "open-apis-disagree", "detail": "%s: %s" % (name, per_api), "replay": ""})
            if len(samples) < 3 and cls in ("malformed", "valid", "short"):
                samples.append({"file": name, "class": cls, "answers": per_api})

        if viol:
            # Refuted already: report now. (The phases below repeat opens tens of thousands of times; on a tree
            # whose opens misbehave they can run into their time limits, and a time-out must not hide a witness.)
            finish(ctx, {"evaluations": evaluations, "distinct_nontrivial": len(distinct), "rule": "open phase only: the check stopped at the first phase that produced a violation", "samples": samples, "open_outcome_matrix": matrix}, viol, None,
                   assumptions=["later phases (repeated opens, credentials, repair) were not run because the open phase already refuted the property"])
            return
        # ---------------------------------------------------------------- failed opens leave nothing behind
        many = [p for p in paths if os.path.basename(p) in (("size-71", "size-16", "ver1-gen0", "trunc-00", "trunc-72", "missing", "magic-byte0-flipped") if q else
                                                             ("size-71", "size-16", "size-17", "size-56", "ver1-gen0", "ver0-gen2", "trunc-00", "trunc-15", "trunc-16", "trunc-40", "trunc-72", "missing", "a-directory", "magic-byte0-flipped", "all-zero-72", "size-4096", "symlink-to-valid"))]
        sviol, stress, sevals = open_stress(ctx, csim, cdrv, [p for p in paths if os.path.basename(p) != "trunc-72"], many, os.path.join(d0, "trunc-72"))
        viol += sviol
        evaluations += sevals

        # ---------------------------------------------------------------- credentials of the client
        # a valid, world-readable segment owned by the daemon's account, opened by clients whose real and
        # effective user ids differ in every way (a set-uid tool, a service that dropped privileges)
        cred_stats = {}
        if os.geteuid() == 0:
            cd = os.path.join(d0, "creds")
            os.makedirs(cd, exist_ok=True)
            os.chmod(d0, 0o755)
            os.chmod(cd, 0o755)
            seg = os.path.join(cd, "shm")
            shutil.copy(os.path.join(d0, "trunc-72"), seg)
            os.chown(seg, 12345, 12345)
            os.chmod(seg, 0o644)
            tool = os.path.join(cd, "clientsim")
            shutil.copy(csim, tool)
            os.chmod(tool, 0o755)
            lst = os.path.join(cd, "list.txt")
            with open(lst, "w") as f:
                f.write(seg + "\n")
            os.chmod(lst, 0o644)
            for ruid, euid in ((0, 0), (12345, 12345), (12345, 23456), (23456, 12345), (23456, 23456), (0, 12345), (12345, 0)):
                def drop(r=ruid, e=euid):
                    os.setgroups([])
                    os.setresgid(65534, 65534, 65534)
                    os.setresuid(r, e, e)
                try:
                    pc = subprocess.run([tool, "openlist", "--list", lst], stdout=subprocess.PIPE, stderr=subprocess.PIPE, text=True, timeout=60, preexec_fn=drop, cwd=cd, env={"PATH": "/usr/bin:/bin"})
                    got = pc.stdout.strip().splitlines()[-1] if pc.stdout.strip() else "no answer (exit %d: %s)" % (pc.returncode, pc.stderr[-100:])
                except Exception as e:  # noqa
                    got = "could not run: %s" % e
                evaluations += 1
                cred_stats["ruid%d-euid%d" % (ruid, euid)] = got
                if got.startswith("could not run") or got.startswith("no answer"):
                    continue
                if got != "OPENED || OPENED":
                    viol.append({"sig": "open-depends-on-client-credentials", "detail": "a valid, published, world-readable segment owned by uid 12345, opened by a client with real uid %d and effective uid %d: %s" % (ruid, euid, got), "replay": ""})

            # permission errors: the checks run as root, for whom no open is refused, so the client is run
            # under an unprivileged account. "the failing system call with its errno" = open / EACCES; a
            # segment the client may only *read* (mode 0444/0400, another owner) must open.
            perm_stats = {}
            pd = os.path.join(cd, "perm")
            os.makedirs(pd, exist_ok=True)
            os.chmod(pd, 0o755)
            locked = os.path.join(pd, "locked-dir")
            os.makedirs(locked, exist_ok=True)
            pcases = []

            def mk(name, owner, mode, where=pd):
                p = os.path.join(where, name)
                shutil.copy(os.path.join(d0, "trunc-72"), p)
                os.chown(p, owner, owner)
                os.chmod(p, mode)
                return p
            denied = "ERR Syscall 13 open"
            pcases.append((mk("other-0600", 12345, 0o600), denied, "mode 0600, another owner"))
            pcases.append((mk("other-0640", 12345, 0o640), denied, "mode 0640, another owner and group"))
            pcases.append((mk("own-0200", 23456, 0o200), denied, "mode 0200 (write-only), own file"))
            pcases.append((mk("own-0000", 23456, 0o000), denied, "mode 0000, own file"))
            pcases.append((mk("own-0400", 23456, 0o400), "OPENED", "mode 0400 (read-only), own file"))
            pcases.append((mk("other-0444", 12345, 0o444), "OPENED", "mode 0444 (read-only for everyone), another owner"))
            pcases.append((mk("root-0644", 0, 0o644), "OPENED", "mode 0644, owned by root"))
            pcases.append((mk("inside", 12345, 0o644, locked), denied, "mode 0644 inside a directory of mode 0700 of another owner"))
            os.chown(locked, 12345, 12345)
            os.chmod(locked, 0o700)
            plst = os.path.join(pd, "list.txt")
            with open(plst, "w") as f:
                f.write("\n".join(p for p, _, _ in pcases) + "\n")
            os.chmod(plst, 0o644)
            ctool = os.path.join(cd, "cdriver")
            shutil.copy(client.build_cdriver(ctx, sanitize=False), ctool)
            os.chmod(ctool, 0o755)

            def drop_unpriv():
                os.setgroups([])
                os.setresgid(65534, 65534, 65534)
                os.setresuid(23456, 23456, 23456)
            for api, cmd in (("rust", [tool, "openlist", "--list", plst]), ("c", [ctool, "openlist", plst])):
                try:
                    pc = subprocess.run(cmd, stdout=subprocess.PIPE, stderr=subprocess.PIPE, text=True, timeout=60, preexec_fn=drop_unpriv, cwd=cd, env={"PATH": "/usr/bin:/bin"})
                    lines = pc.stdout.splitlines()
                except Exception as e:  # noqa
                    perm_stats[api] = "could not run: %s" % e
                    continue
                if pc.returncode != 0 or len(lines) != len(pcases):
                    if pc.returncode < 0 and -pc.returncode in (6, 7, 11):
                        viol.append({"sig": "open-crash-unprivileged-" + api, "detail": "%s open run as uid 23456 died of signal %d after %d of %d files: %s" % (api, -pc.returncode, len(lines), len(pcases), pc.stderr[-300:]), "replay": ""})
                    perm_stats[api] = "no answer (exit %d after %d lines: %s)" % (pc.returncode, len(lines), pc.stderr[-100:])
                    continue
                for (p, want, what), got in zip(pcases, lines):
                    evaluations += 1
                    answers_ = [x.strip() for x in got.split("||")]
                    perm_stats.setdefault(api, {})[os.path.basename(p)] = got.strip()
                    for a in answers_:
                        if a != want:
                            viol.append({"sig": "open-permission-outcome", "detail": "%s client running as uid 23456 opening a valid segment with %s: got '%s', expected '%s'" % (api, what, a, want), "replay": ""})
            cred_stats["permissions"] = perm_stats

        # ---------------------------------------------------------------- a FIFO with a writer attached
        # (a FIFO nobody writes to blocks open(O_RDONLY) by POSIX and is excluded.) With a writer that sends
        # well-formed segments the header can be read but the file cannot be mapped: any documented error
        # is accepted, a success, a panic or a crash is not.
        fifo_stats = {}
        fp = os.path.join(d0, "a-fifo")
        try:
            os.mkfifo(fp)
            valid_bytes = open(os.path.join(d0, "trunc-72"), "rb").read()
            for api, cmd in (("rust", [csim, "openlist", "--list", "{list}"]), ("c", [cdrv, "openlist", "{list}"])):
                lst = os.path.join(ctx.tmp, "fifo-list-%s.txt" % api)
                with open(lst, "w") as f:
                    f.write(fp + "\n")
                e = dict(ctx.env)
                e.update({"ASAN_OPTIONS": "halt_on_error=1:detect_leaks=0", "UBSAN_OPTIONS": "halt_on_error=1"})
                pc = subprocess.Popen([a.replace("{list}", lst) for a in cmd], stdout=subprocess.PIPE, stderr=subprocess.PIPE, text=True, env=e)
                wfd = None
                try:
                    # keep a writer attached and the pipe full of well-formed segments until the client has answered
                    wfd = os.open(fp, os.O_RDWR | os.O_NONBLOCK)
                    deadline = time.time() + 30
                    while pc.poll() is None and time.time() < deadline:
                        try:
                            os.write(wfd, valid_bytes * 8)
                        except BlockingIOError:
                            pass
                        time.sleep(0.01)
                    if pc.poll() is None:
                        pc.kill()
                        pc.wait()
                        fifo_stats[api] = "no answer within 30 s (inconclusive)"
                        continue
                    out, err = pc.communicate()
                finally:
                    if wfd is not None:
                        os.close(wfd)
                evaluations += 1
                line = out.strip().splitlines()[-1] if out.strip() else ""
                fifo_stats[api] = line or "exit %d: %s" % (pc.returncode, err[-200:])
                if pc.returncode != 0 or not line:
                    viol.append({"sig": "open-crash-fifo-" + api, "detail": "%s client opening a FIFO that delivers well-formed segments exited %d: %s" % (api, pc.returncode, err[-300:]), "replay": ""})
                    continue
                for a in [x.strip() for x in line.split("||")]:
                    if not a.startswith("ERR "):
                        viol.append({"sig": "open-fifo-outcome", "detail": "%s client opening a FIFO that delivers well-formed segments (it cannot be mapped): got '%s', a documented error expected" % (api, a), "replay": ""})
        except OSError as e:
            fifo_stats["setup"] = "could not create a FIFO: %s" % e

        # ---------------------------------------------------------------- repair
        rviol, repair_stats, revals, rsamples = repair_phase(ctx, csim, files, magic, dirs)
        viol += rviol
        evaluations += revals
        samples += rsamples
    finally:
        for _, d in dirs:
            shutil.rmtree(d, ignore_errors=True)
    inconclusive = None
    if "disk" in repair_stats and repair_stats["disk"]["evict_asked"] < repair_stats["disk"]["files"] * 0.9:
        inconclusive = "page-cache eviction was refused on the disk-backed directory"
    coverage = {
        "evaluations": evaluations,
        "distinct_nontrivial": len(distinct),
        "rule": "corpus: every truncation length 0..80 of a valid segment (exhaustive), every header field at edge values, magic bytes flipped one at a time, the three readings of the documented magic, two-defect files, valid headers with short/random bodies, random bytes of length 0..256, path kinds (missing, directory, symlink, dangling symlink, /dev/null, missing directory, a FIFO fed by a writer); a valid segment under eight permission/ownership settings opened by an unprivileged client (EACCES from open, or success where reading is permitted); "
                "each file opened through ClockBoundClient, ShmReader and clockbound_open (C, ASan+UBSan; thorough: also the Rust side under rustc's AddressSanitizer and both under valgrind) and compared with the decision table of the statement; each file also opened 100 times in one process under a descriptor limit of 64, after which a valid segment must still open (failed opens leave nothing behind); then daemon start-up + first publication over each file on tmpfs and on a disk-backed directory, a new client reading (A) while the writer lives and (B) after the writer is gone, the file fsync'ed and its page cache dropped; "
                "distinct_nontrivial = distinct corpus files (all non-trivial: each has an expected outcome)",
        "samples": samples,
        "open_outcome_matrix": matrix,
        "repair": repair_stats,
        "repeated_opens": stress,
        "client_credentials": cred_stats,
        "fifo_with_writer": fifo_stats,
        "exhaustive_over": "truncation lengths 0..80",
    }
    # a client that attaches while the daemon is in the middle of an update of a published segment (also the
    # update in which the 16-bit generation rolls over): a fresh open at every point of the update
    from . import shm as _shm
    from .common import NPROC
    oparts = _shm.run_single(ctx, _shm.shmsim(ctx), ["c11sweep", "--only-watched", "1"], NPROC, 900)
    opens = 0
    viol += _shm.crash_violations(oparts)
    for p_ in oparts:
        if p_ is None:
            if not inconclusive:
                inconclusive = "an opens-during-updates run did not finish"
            continue
        if p_.get("_crashed"):
            continue
        opens += p_.get("opens_during_updates", 0)
        viol += [v for v in p_["violations"] if v["sig"] == "open-fails-while-the-daemon-updates"]
    coverage["opens_at_every_point_of_an_update"] = opens
    if opens < 1000 and not inconclusive:
        inconclusive = "only %d opens during updates were observed" % opens
    # threads and forked children in a C client (own contexts, handed-over contexts, inherited contexts)
    from . import client as _client
    _mv, _ms = _client.run_mt(ctx, "C16", 2.0 if ctx.quick() else 20.0)
    viol += _mv
    coverage["multi_threaded_c_client"] = _ms
    if any("inconclusive" in str(v) or str(v).startswith("exit ") for v in _ms.values()) and not inconclusive:
        inconclusive = "multi-threaded C client scenario did not complete: %s" % _ms
    finish(ctx, coverage, viol, inconclusive, assumptions=["permission errors are exercised through clients run under an unprivileged account (setresuid from root); skipped when the check itself does not run as root", "a FIFO nobody writes to is excluded (open(O_RDONLY) blocks by POSIX); a FIFO with a writer attached is opened",
                                                          "posix_fadvise(DONTNEED) after fsync drops clean page-cache pages on the disk-backed file system"])


def replay(ctx, path):
    print("C16 replay files are the offending segment files themselves; re-run ./check C16 quick (the corpus is deterministic for a seed)")
    raise SystemExit(2)

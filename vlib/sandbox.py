"""Private mount namespace with a tmpfs on /run (the daemon and chrony-candm hard-code paths there)."""
import shutil


def wrap(cmd, extra_setup=""):
    """Command list that runs `cmd` inside `unshare -m` with a fresh tmpfs on /run."""
    script = ("mount -t tmpfs tmpfs /run && mkdir -p /run/chrony /run/clockbound && touch /run/chrony/.verif-private && " + extra_setup + ' exec "$@"')
    return ["unshare", "-m", "--propagation", "private", "sh", "-c", script, "sh"] + list(cmd)


def available():
    import subprocess
    if not shutil.which("unshare"):
        return False
    p = subprocess.run(wrap(["test", "-f", "/run/chrony/.verif-private"]), stdout=subprocess.PIPE, stderr=subprocess.PIPE)
    return p.returncode == 0

"""Shared plumbing of the checks: build, sharded runs, verdicts, evidence, known findings."""
import hashlib
import json
import os
import shutil
import subprocess
import sys
import time

VERIF = os.path.dirname(os.path.dirname(os.path.abspath(__file__)))
NPROC = int(os.environ.get("VERIF_JOBS", str(os.cpu_count() or 4)))

LEVELS = {
    "C01": "exploration", "C02": "exploration", "C03": "exploration", "C04": "fault_enumeration",
    "C05": "exploration", "C06": "exploration", "C07": "exploration", "C08": "exploration",
    "C09": "exploration", "C10": "exploration", "C11": "exploration", "C12": "exploration",
    "C13": "exploration", "C14": "exploration", "C15": "fault_enumeration", "C16": "exploration",
    "C17": "exploration", "C18": "exploration", "C19": "exploration",
}


class Inconclusive(Exception):
    pass


class Ctx:
    def __init__(self, prop, tier, seed):
        self.prop = prop
        self.tier = tier
        self.seed = seed
        self.t0 = time.time()
        self.repo = os.path.realpath(os.environ.get("VERIF_REPO", "/repo"))
        self.tag = "main" if self.repo == "/repo" else "alt-" + hashlib.sha1(self.repo.encode()).hexdigest()[:10]
        self.bdir = os.path.join(VERIF, ".build", self.tag)
        self.ws = os.path.join(self.bdir, "ws")
        # Evidence and replays of runs against another tree never clobber the real ones.
        if self.tag == "main":
            self.evidence_dir = os.path.join(VERIF, "evidence")
            self.replay_dir = os.path.join(VERIF, "replays")
        else:
            self.evidence_dir = os.path.join(self.bdir, "evidence")
            self.replay_dir = os.path.join(self.bdir, "replays")
        os.makedirs(self.evidence_dir, exist_ok=True)
        os.makedirs(self.replay_dir, exist_ok=True)
        self.tmp = os.path.join(self.bdir, "tmp", "%s-%s-%d" % (prop, tier, os.getpid()))
        shutil.rmtree(self.tmp, ignore_errors=True)
        os.makedirs(self.tmp, exist_ok=True)
        self.env = dict(os.environ)
        self.env["CARGO_NET_OFFLINE"] = "true"
        self.env.pop("RUSTFLAGS", None)

    def quick(self):
        return self.tier == "quick"

    def log(self, *a):
        print("[%s %s %6.1fs]" % (self.prop, self.tier, time.time() - self.t0), *a, flush=True)

    # ---------------------------------------------------------------- builds
    def ensure_ws(self):
        os.makedirs(self.bdir, exist_ok=True)
        lock = os.path.join(self.bdir, ".wslock")
        import fcntl
        with open(lock, "w") as lf:
            fcntl.flock(lf, fcntl.LOCK_EX)
            subprocess.run(["rsync", "-a", "--delete", "--exclude", "target", "--exclude", "/repo", "--exclude", "Cargo.lock",
                            os.path.join(VERIF, "harness") + "/", self.ws + "/"], check=True)
            link = os.path.join(self.ws, "repo")
            if os.path.islink(link) and os.readlink(link) != self.repo:
                os.unlink(link)
            if not os.path.islink(link):
                os.symlink(self.repo, link)
            wl = os.path.join(self.ws, "Cargo.lock")
            if not os.path.exists(wl):
                shutil.copy(os.path.join(self.repo, "Cargo.lock"), wl)

    def cargo(self, args, target, cwd=None, toolchain=None, extra_env=None, timeout=3600):
        """Run cargo under a per-target-dir lock; returns CompletedProcess."""
        import fcntl
        tdir = os.path.join(self.bdir, target)
        os.makedirs(tdir, exist_ok=True)
        cmd = ["cargo"] + ([toolchain] if toolchain else []) + args + ["--target-dir", tdir]
        env = dict(self.env)
        if extra_env:
            env.update(extra_env)
        with open(os.path.join(self.bdir, ".lock-" + target), "w") as lf:
            fcntl.flock(lf, fcntl.LOCK_EX)
            p = subprocess.run(cmd, cwd=cwd or self.ws, env=env, stdout=subprocess.PIPE, stderr=subprocess.STDOUT, text=True, timeout=timeout)
        return p

    def build_harness(self, pkg, bins, features=None, release=True, target=None):
        """Build harness binaries against the repo tree; returns {bin: path}."""
        self.ensure_ws()
        target = target or ("h-" + pkg + ("-" + "-".join(features) if features else "") + ("-rel" if release else "-dbg"))
        args = ["build", "--offline", "-p", pkg]
        for b in bins:
            args += ["--bin", b]
        if features:
            args += ["--features", ",".join(features)]
        if release:
            args.append("--release")
        p = self.cargo(args, target)
        if p.returncode != 0:
            sys.stdout.write(p.stdout[-6000:])
            raise Inconclusive("harness build failed for %s (the tree does not compile with the harness)" % pkg)
        prof = "release" if release else "debug"
        return {b: os.path.join(self.bdir, target, prof, b) for b in bins}

    def build_harness_asan(self, pkg, bins):
        """Harness binaries (and the repository crates they link) under AddressSanitizer (nightly)."""
        self.ensure_ws()
        target = "h-" + pkg + "-asan"
        args = ["build", "--offline", "--target", "x86_64-unknown-linux-gnu", "-p", pkg]
        for b in bins:
            args += ["--bin", b]
        p = self.cargo(args, target, toolchain="+nightly", extra_env={"RUSTFLAGS": "-Zsanitizer=address -Cforce-frame-pointers=yes"})
        if p.returncode != 0:
            sys.stdout.write(p.stdout[-4000:])
            raise Inconclusive("ASan build of %s failed" % pkg)
        return {b: os.path.join(self.bdir, target, "x86_64-unknown-linux-gnu", "debug", b) for b in bins}

    def build_repo(self, packages, release=True, features=None, target=None):
        """Build artefacts of the repository itself (as shipped unless features are given)."""
        target = target or ("repo" + ("-" + "-".join(features) if features else "") + ("-rel" if release else "-dbg"))
        args = ["build", "--offline"]
        for pk in packages:
            args += ["-p", pk]
        if features:
            args += ["--features", ",".join(features)]
        if release:
            args.append("--release")
        p = self.cargo(args, target, cwd=self.repo)
        if p.returncode != 0:
            sys.stdout.write(p.stdout[-6000:])
            raise Inconclusive("repository build failed")
        return os.path.join(self.bdir, target, "release" if release else "debug")

    # ---------------------------------------------------------------- runs
    def run_parallel(self, cmds, timeout, env=None, jobs=None):
        """Run commands (lists) in parallel, at most `jobs` at once. Returns list of (rc, stdout) where
        rc is None on watchdog expiry."""
        jobs = jobs or NPROC
        results = [None] * len(cmds)
        running = {}
        nxt = 0
        e = dict(self.env)
        if env:
            e.update(env)
        while nxt < len(cmds) or running:
            while nxt < len(cmds) and len(running) < jobs:
                out = open(os.path.join(self.tmp, "run-%d.out" % nxt), "w+")
                pr = subprocess.Popen(cmds[nxt], stdout=out, stderr=subprocess.STDOUT, env=e, cwd=self.tmp)
                running[nxt] = (pr, out, time.time())
                nxt += 1
            done = []
            for k, (pr, out, ts) in running.items():
                rc = pr.poll()
                if rc is not None:
                    out.seek(0)
                    results[k] = (rc, out.read())
                    out.close()
                    done.append(k)
                elif time.time() - ts > timeout:
                    pr.kill()
                    pr.wait()
                    out.seek(0)
                    results[k] = (None, out.read())
                    out.close()
                    done.append(k)
            for k in done:
                del running[k]
            if not done:
                time.sleep(0.02)
        return results

    def run_shards(self, binary, args, nshards, timeout, extra=None):
        """Run `binary args --shard i/n --out f --hashes h`; returns list of parsed JSON (None = inconclusive)."""
        cmds = []
        outs = []
        for i in range(nshards):
            o = os.path.join(self.tmp, "%s-%d-%d.json" % (os.path.basename(binary), len(os.listdir(self.tmp)), i))
            h = o + ".hashes"
            outs.append((o, h))
            cmds.append([binary] + args + ["--shard", "%d/%d" % (i, nshards), "--out", o, "--hashes", h, "--replays", self.replay_dir] + (extra or []))
        res = self.run_parallel(cmds, timeout)
        parsed = []
        for (rc, text), (o, h) in zip(res, outs):
            if rc == 0 and os.path.exists(o):
                with open(o) as f:
                    j = json.load(f)
                j["_hashes"] = h
                parsed.append(j)
            elif rc is not None and -rc in (4, 6, 7, 8, 11):
                # (SIGKILL is never counted: it comes from outside, e.g. the OOM killer.)
                # The process running the code under test was killed by a signal (SIGBUS when a mapped
                # segment is truncated under a reader, SIGSEGV, SIGABRT ...): that is an observation,
                # not a lost run.
                self.log("shard killed by signal %d: %s" % (-rc, text[-500:]))
                parsed.append({"_crashed": -rc, "_cmd": " ".join(cmds[len(parsed)][:6]), "violations": [], "samples": []})
            elif "ERROR: AddressSanitizer" in text:
                # a sanitizer report (not LeakSanitizer's end-of-process summary) is an observation too
                at = text.index("ERROR: AddressSanitizer")
                self.log("shard stopped by AddressSanitizer: %s" % text[at:at + 1500])
                parsed.append({"_crashed": 6, "_cmd": " ".join(cmds[len(parsed)][:6]) + " [AddressSanitizer: %s]" % text[at:at + 200].replace("\n", " "), "violations": [], "samples": []})
            else:
                self.log("shard did not finish (rc=%s): %s" % (rc, text[-1500:]))
                parsed.append(None)
        return parsed


def sweep_scratch():
    """Scratch directories under /dev/shm and /var/tmp left by harness processes that were killed (a
    shard dying of SIGBUS is an expected observation): remove those whose owner process is gone."""
    import glob
    import re
    for base in ("/dev/shm", "/var/tmp"):
        for d in glob.glob(os.path.join(base, "cbverif*")):
            m = re.findall(r"(\d+)", os.path.basename(d))
            pids = [int(x) for x in m if int(x) > 1]
            if pids and any(os.path.exists("/proc/%d" % p) for p in pids):
                continue
            try:
                if os.path.isdir(d):
                    shutil.rmtree(d, ignore_errors=True)
                else:
                    os.unlink(d)
            except OSError:
                pass


def union_hashes(files):
    import array
    seen = set()
    for f in files:
        if f and os.path.exists(f):
            a = array.array("Q")
            with open(f, "rb") as fh:
                data = fh.read()
            a.frombytes(data[: len(data) // 8 * 8])
            seen.update(a)
    return len(seen)


def load_known():
    known, fixed = [], []
    p = os.path.join(VERIF, "KNOWN_FINDINGS.txt")
    if os.path.exists(p):
        for line in open(p):
            line = line.strip()
            if not line or line.startswith("#"):
                continue
            if line.startswith("known:"):
                parts = line[len("known:"):].split()
                d = {"property": None, "sig": None, "text": ""}
                rest = []
                for w in parts:
                    if w.startswith("property=") and d["property"] is None:
                        d["property"] = w[len("property="):]
                    elif w.startswith("sig=") and d["sig"] is None:
                        d["sig"] = w[len("sig="):]
                    else:
                        rest.append(w)
                d["text"] = " ".join(rest)
                known.append(d)
            elif line.startswith("fixed:"):
                fixed.append(line)
    return known, fixed


def finish(ctx, coverage, violations, inconclusive=None, assumptions=None, level=None):
    """violations: list of dicts {sig, detail, replay}. Writes evidence, prints verdict lines, exits."""
    known, _ = load_known()
    real = []
    known_hits = {}
    for v in violations:
        k = next((k for k in known if k["property"] == ctx.prop and k["sig"] == v.get("sig")), None)
        if k:
            known_hits.setdefault(k["sig"], (k, 0))
            known_hits[k["sig"]] = (k, known_hits[k["sig"]][1] + 1)
        else:
            real.append(v)
    for sig, (k, n) in known_hits.items():
        print("KNOWN-FINDING: property=%s %s (sig=%s, %d occurrence(s) in this run)" % (ctx.prop, k["text"], sig, n))
    wall = time.time() - ctx.t0
    ev = {
        "property_id": ctx.prop,
        "tier": ctx.tier,
        "seed": ctx.seed,
        "level": level or LEVELS[ctx.prop],
        "coverage": coverage,
        "assumptions": assumptions or [],
        "wall_s": round(wall, 2),
        "violations": len(real),
    }
    if inconclusive:
        ev["coverage"]["inconclusive"] = inconclusive
    ev["coverage"]["known_findings_hit"] = {s: n for s, (k, n) in known_hits.items()}
    path = os.path.join(ctx.evidence_dir, ctx.prop + ".json")
    with open(path + ".tmp", "w") as f:
        json.dump(ev, f, indent=1, sort_keys=True)
    os.replace(path + ".tmp", path)
    shutil.rmtree(ctx.tmp, ignore_errors=True)
    sweep_scratch()
    if real:
        shown = set()
        for v in real:
            rp = v.get("replay") or ""
            if not rp:
                rp = os.path.join(ctx.replay_dir, "%s-%d-%d.json" % (ctx.prop, ctx.seed, len(shown)))
                with open(rp, "w") as f:
                    json.dump(v, f, indent=1)
            if rp in shown:
                continue
            shown.add(rp)
            if len(shown) <= 10:
                print("  violation: sig=%s %s" % (v.get("sig"), v.get("detail")))
                print("VIOLATION property=%s replay=%s" % (ctx.prop, rp))
        print("%s %s: %d violation(s) in %.1fs" % (ctx.prop, ctx.tier, len(real), wall))
        sys.exit(1)
    if inconclusive:
        print("INCONCLUSIVE property=%s %s" % (ctx.prop, inconclusive))
        sys.exit(3)
    print("%s %s: held on everything observed (%s evaluations, %s distinct non-trivial) in %.1fs" % (
        ctx.prop, ctx.tier, coverage.get("evaluations"), coverage.get("distinct_nontrivial"), wall))
    sys.exit(0)

"""C06 — client never reports a status stronger than the record's age justifies."""
from . import c05

RULE = ("as C05's rig; generator: stored status in {Unknown, Synchronized, FreeRunning} x monotonic reading at -1/0/+1 ns around as_of, as_of+5 s, void_after and the blur edge, plus random readings inside the grace period, "
        "between grace and void_after, beyond void_after, inside the blur; void_after in {as_of+5 s, +5 s+1 ns, daemon-style whole second +1000 s, random}; oracle = the decision table of the statement in integer arithmetic; "
        "distinct_nontrivial = distinct input vectors; cells = (status | region | void_after kind | edge offset) must all be populated")


def run(ctx):
    c05.run_prop(ctx, "C06", RULE, min_cells=250)


replay = c05.replay

"""C19 — configured drift rate is published exactly, or the daemon refuses to start."""
import json
import os
import random
import struct

from . import protocol, sandbox
from .common import NPROC, Inconclusive, finish, VERIF


def run(ctx):
    q = ctx.quick()
    if not sandbox.available():
        raise Inconclusive("unshare -m with a private tmpfs on /run is not available")
    relbin = os.path.join(ctx.build_repo(["clock-bound-d", "clock-bound-ffi"], release=True), "clockbound")
    rng = random.Random(ctx.seed)
    rates = ["omit", "0", "1", "50", "999999", "1000000", "4294967", "4294968", "4294969", str(2 ** 31), str(2 ** 32 - 1), str(2 ** 32), "-1", "abc", "8589935", "8589934", "12884902", "12884901"]
    # around every multiple of 2^32/1000 (where a wrapped product is small), and random
    for _ in range(60 if q else 1500):
        k = rng.randrange(1, 1000)
        rates.append(str(min(2 ** 32 - 1, (k * 2 ** 32) // 1000 + rng.randrange(-2, 3))))
    for _ in range(60 if q else 1500):
        rates.append(str(rng.randrange(0, 4294968)))
    for _ in range(60 if q else 1500):
        rates.append(str(rng.randrange(4294968, 2 ** 32)))
    # with the other command line options present, and restarts over the previous instance's segment
    for v in ("omit", "1", "50", "1000", "4294967", "4294968", "999999"):
        rates.append(v + "+phc")
        rates.append(v + "+json")
    for a_, b_ in (("50", "7"), ("7", "50"), ("omit", "50"), ("50", "omit"), ("50", "50"), ("4294967", "1"), ("1", "4294968")):
        rates.append(a_ + ">" + b_)
    # other spellings of a number: published exactly (as a rational x 1000) or refused
    rates += ["32.3", "1.001", "2.01", "0.0625", "0.5", "50.0", "1e3", "+50", "050", " 50", "50 ", "0x10", "1_000", "4294967.295", "4294967.2951", "0.001", "0.0001", ""]
    if not q:
        for _ in range(300):
            rates.append("%d.%03d" % (rng.randrange(0, 100), rng.randrange(0, 1000)))
    # the whole life of a daemon: chronyd answering, a signal delivered on the way, the segment sampled every 10 ms
    for sig in ("", "SIGUSR1", "SIGUSR2", "SIGHUP", "SIGCONT", "SIGWINCH", "SIGURG", "SIGCHLD", "SIGALRM", "SIGTERM", "SIGINT"):
        rates.append("50+life" + sig)
    rates += ["7+life", "omit+lifeSIGUSR1", "4294967+lifeSIGUSR1", "50+lifeREFUSE", "7+lifeREFUSE", "50+lifeDIE", "7+lifeDIE", "omit+lifeDIE", "4294967+lifeDIE"]
    # the daemon's main thread held back after each thread spawn (a starved or stopped process at start-up)
    rates += ["50+slowspawn", "7+slowspawn", "omit+slowspawn", "4294968+slowspawn"]
    rates = list(dict.fromkeys(rates))
    chunks = [rates[i::NPROC] for i in range(NPROC)]
    cmds, outs = [], []
    for i, ch in enumerate(chunks):
        if not ch:
            continue
        o = os.path.join(ctx.tmp, "c19-%d.json" % i)
        outs.append(o)
        cmds.append(sandbox.wrap(["python3", os.path.join(VERIF, "vlib", "nsrun.py"), "c19", relbin, o] + ch))
    res = ctx.run_parallel(cmds, 1200)
    viol, samples = [], []
    n = 0
    life_runs = life_samples = lost_life = 0
    die_lives = [0, 0]
    published = refused = 0
    classes = {}
    lost = 0
    layout_checked = 0
    for (rc, text), o in zip(res, outs):
        if rc != 0 or not os.path.exists(o):
            lost += 1
            ctx.log("c19 run lost rc=%s %s" % (rc, text[-300:]))
            continue
        for r in json.load(open(o)):
            n += 1
            spec = r["rate"]
            if r.get("setup_failed"):
                lost += 1
                continue
            rate = spec.split(">")[-1].replace("+phc", "").replace("+json", "").replace("+slowspawn", "").split("+life")[0]
            want = None
            try:
                from fractions import Fraction
                v = Fraction(1) if rate == "omit" else Fraction(rate)
                if 0 <= v < 2 ** 32 and (v * 1000).denominator == 1:
                    want = int(v * 1000)
            except (ValueError, ZeroDivisionError):
                pass
            if r.get("life"):
                lf = r["life"]
                life_runs += 1
                if lf["signal"] == "DIE":
                    die_lives[0] += 1
                    die_lives[1] += 0 if lf["alive_at_end"] else 1
                life_samples += lf["samples"]
                wrong = {k: n_ for k, n_ in lf["drift_values_seen"].items() if want is None or int(k) != want}
                if wrong:
                    rp = os.path.join(ctx.replay_dir, "C19-%s.json" % spec)
                    with open(rp, "w") as f:
                        json.dump({"property": "C19", "observation": r}, f, indent=1)
                    viol.append({"sig": "drift-field-changes-during-run", "detail": "clockbound --max-drift-rate %s with chronyd answering, signal %s after 1.6 s: of %d samples of the segment (10 ms apart) the max-drift field read %s (expected %s throughout); statuses seen %s" % (rate, lf["signal"] or "none", lf["samples"], lf["drift_values_seen"], want, lf["statuses_seen"]), "replay": rp})
                if lf["samples"] < 50 and want is not None and want < 2 ** 32:
                    lost_life += 1
            cls = "omitted" if rate == "omit" else ("unparsable" if want is None else ("representable" if want < 2 ** 32 else "not-representable"))
            classes[cls] = classes.get(cls, 0) + 1
            if r["published"]:
                published += 1
                raw = bytes.fromhex(r["published"])
                d = protocol.decode(raw)
                layout_checked += 1
                got = d["max_drift"]
                if want is None or want >= 2 ** 32 or got != want:
                    sig = "ppm-times-1000-wraps" if (want is not None and want >= 2 ** 32) else "drift-field-mismatch"
                    rp = os.path.join(ctx.replay_dir, "C19-%s.json" % spec.replace(">", "_then_"))
                    with open(rp, "w") as f:
                        json.dump({"property": "C19", "rate_ppm": spec, "published_max_drift_ppb": got, "expected": want, "segment_hex": r["published"]}, f, indent=1)
                    viol.append({"sig": sig, "detail": "clockbound --max-drift-rate %s published max drift %d ppb; %s" % (spec, got, ("expected %d" % want) if (want is not None and want < 2 ** 32) else "the value is not representable and must be refused"), "replay": rp})
                if len(samples) < 3:
                    samples.append({"rate_ppm": rate, "published_max_drift_ppb": got, "status_field": d["status"], "waited_s": r["waited_s"]})
            else:
                refused += 1
                if r["exit_code"] in (None, 0):
                    rp = os.path.join(ctx.replay_dir, "C19-%s.json" % spec.replace(">", "_then_"))
                    with open(rp, "w") as f:
                        json.dump({"property": "C19", "observation": r}, f, indent=1)
                    viol.append({"sig": "no-publication-no-refusal", "detail": "clockbound --max-drift-rate %s neither published (a new record) within 8 s nor exited with an error (exit code %s): %s" % (spec, r["exit_code"], r["stderr_tail"][-200:]), "replay": rp})
                elif want is not None and want < 2 ** 32 and (rate == "omit" or rate.isdigit()):
                    viol.append({"sig": "valid-rate-refused", "detail": "clockbound --max-drift-rate %s exited with code %s without publishing: %s" % (rate, r["exit_code"], r["stderr_tail"][-200:]), "replay": ""})
                if len(samples) < 5 and cls != "representable":
                    samples.append({"rate_ppm": rate, "refused_exit_code": r["exit_code"]})
    # hours of operation inside one process: the daemon's own writer thread fed 7300 outcomes (an outage
    # of 1100 polls among them); the drift field of every record it publishes must be the configured one
    from . import daemon
    lviol, life_info = daemon.run_real_lives(ctx, 2 if q else 8, tolerate_build_failure=True)
    for v in lviol:
        if v["sig"] == "drift-field":
            viol.append({"sig": "drift-field-changes-over-a-long-life", "detail": v["detail"], "replay": v.get("replay", "")})
    inconclusive = None
    if lost:
        inconclusive = "%d sandbox runs did not finish" % lost
    elif life_info.get("inconclusive"):
        inconclusive = life_info["inconclusive"]
    elif lost_life:
        inconclusive = "%d whole-life runs yielded fewer than 50 samples of the segment" % lost_life
    elif published < 20 or classes.get("not-representable", 0) < 20:
        inconclusive = "monitors observed too little (published %d, non-representable rates %d)" % (published, classes.get("not-representable", 0))
    coverage = {
        "evaluations": n,
        "distinct_nontrivial": len(rates),
        "rule": "each evaluation starts the release `clockbound` binary (guard off, as shipped) in its own mount namespace with a private /run and no chronyd, with one --max-drift-rate value: omitted, 0, 1, 50, the largest representable 4294967, the first wrapping 4294968, 2^31, 2^32-1, 2^32, -1, 'abc', values around every multiple of 2^32/1000, random representable and non-representable values; a few values again with the PHC options (private /sys) and with --json-output; restarts with another value over the segment the previous instance published; other spellings of a number (decimals, exponent, sign, spaces: exact rational x 1000 or refusal); whole-life runs (chronyd stand-in answering, one of 10 signals delivered after 1.6 s, the max-drift field sampled every 10 ms for 4.2 s: the configured value throughout, whatever the daemon does on the signal; also lives in which a worker thread dies after 1.6 s on a chronyd reply it cannot digest and the daemon winds down, sampled until 4.2 s); starts with the spawning thread held back 300 ms after each thread creation (strace delay injection); "
                "the max-drift field is read from the segment at the offset PROTOCOL.md gives (56) after the first publication, or the exit status is taken; oracle: publishes exactly 1000 x rate (1000 when omitted) or exits non-zero without publishing; distinct_nontrivial = distinct rate values",
        "samples": samples,
        "published": published,
        "refused": refused,
        "long_lives_of_the_writer_thread": life_info,
        "whole_life_runs": life_runs,
        "lives_with_a_worker_thread_dying": {"runs": die_lives[0], "daemon_had_exited_by_the_end": die_lives[1]},
        "whole_life_segment_samples": life_samples,
        "classes": classes,
    }
    finish(ctx, coverage, viol, inconclusive, assumptions=["the first publication happens without chronyd (poller reports 'not responding', the writer publishes the configured drift with status Unknown)"])


def replay(ctx, path):
    print(open(path).read())
    raise SystemExit(2)

"""Real ClockErrorBoundPoller over a real unix socket, in a private mount namespace (C13 part i)."""
import json
import os

from . import daemon, sandbox
from .common import NPROC


def run_real(ctx):
    if not sandbox.available():
        return {"violations": [], "evaluations": 0, "distinct": 0, "inconclusive": "unshare -m with a private tmpfs on /run is not available"}
    b = daemon.build(ctx)
    q = ctx.quick()
    jobs = []
    outs = []
    n = NPROC
    for i in range(n):
        o = os.path.join(ctx.tmp, "c13real-%d.json" % i)
        outs.append(o)
        silent = "1" if (not q and i < 4) else "0"
        count = (40 if silent == "1" else (400 if q else 6000)) * n
        jobs.append(sandbox.wrap([b, "c13real", "--seed", str(ctx.seed * 1000 + 13), "--count", str(count), "--shard", "%d/%d" % (i, n), "--out", o, "--replays", ctx.replay_dir, "--silent", silent]))
    res = ctx.run_parallel(jobs, 1500)
    agg = {"evaluations": 0, "distinct": 0, "steps": 0, "coarse_reads": 0, "kinds": {}, "threshold_edges": {}, "violations": [], "samples": []}
    lost = 0
    for (rc, text), o in zip(res, outs):
        if rc != 0 or not os.path.exists(o):
            lost += 1
            ctx.log("c13real shard lost rc=%s %s" % (rc, text[-300:]))
            continue
        j = json.load(open(o))
        if j.get("inconclusive"):
            agg["inconclusive"] = j["inconclusive"]
        for k in ("evaluations", "distinct", "steps", "coarse_reads"):
            agg[k] += j.get(k, 0)
        for k in ("kinds", "threshold_edges"):
            for kk, vv in j.get(k, {}).items():
                agg[k][kk] = agg[k].get(kk, 0) + vv
        agg["violations"] += j["violations"]
        agg["samples"] += j["samples"][:1]
    if lost:
        agg["inconclusive"] = "%d real-poller runs did not finish" % lost
    e = agg["threshold_edges"]
    if not agg.get("inconclusive") and (min(e.get(k, 0) for k in ("start-up", "5s-1ns", "5s", "5s+1ns", "inside", "beyond")) < 5):
        agg["inconclusive"] = "threshold edges not all exercised: %s" % e
    return agg

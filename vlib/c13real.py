"""Real ClockErrorBoundPoller over a real unix socket, in a private mount namespace (C13 part i)."""


def run_real(ctx):
    return {"violations": [], "evaluations": 0, "distinct": 0, "note": "not built yet"}

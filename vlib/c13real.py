"""Real ClockErrorBoundPoller over a real unix socket, in a private mount namespace (C13 part i)."""
import json
import os

from . import daemon, sandbox
from .common import NPROC


def run_real(ctx, slow=False):
    if not sandbox.available():
        return {"violations": [], "evaluations": 0, "distinct": 0, "inconclusive": "unshare -m with a private tmpfs on /run is not available"}
    b = daemon.build(ctx)
    q = ctx.quick()
    jobs = []
    outs = []
    n = NPROC
    for i in range(n):
        o = os.path.join(ctx.tmp, "c13real-%d.json" % i)
        outs.append(o)
        silent = "1" if (not q and i < 4) else "0"
        # late answers (real seconds each): a few scripts on some shards, when asked for
        slow_s = "1" if (slow and 4 <= i < (8 if q else 12)) else "0"
        count = (40 if silent == "1" else ((5 if q else 60) if slow_s == "1" else (400 if q else 6000))) * n
        # one long life of a single poller on one shard: 3700 polls (the hour mark and beyond), the PHC attribute unreadable for 340 of them
        # (silence right after exactly 3600 / 3601 / 7200 answered polls: the hour marks of a poll counter)
        long_s = {n - 1: "3600", n - 2: "3601", n - 3: "7200"}.get(i, "0") if (i >= n - 2 or not q) else "0"
        jobs.append(sandbox.wrap([b, "c13real", "--seed", str(ctx.seed * 1000 + 13), "--count", str(count), "--shard", "%d/%d" % (i, n), "--out", o, "--replays", ctx.replay_dir, "--silent", silent, "--slow", slow_s, "--long", long_s]))
    res = ctx.run_parallel(jobs, 1500)
    agg = {"evaluations": 0, "distinct": 0, "steps": 0, "coarse_reads": 0, "phc_read_failures_injected": 0, "kinds": {}, "threshold_edges": {}, "violations": [], "samples": []}
    lost = 0
    for (rc, text), o in zip(res, outs):
        if rc != 0 or not os.path.exists(o):
            lost += 1
            ctx.log("c13real shard lost rc=%s %s" % (rc, text[-300:]))
            continue
        j = json.load(open(o))
        if j.get("inconclusive"):
            agg["inconclusive"] = j["inconclusive"]
        for k in ("evaluations", "distinct", "steps", "coarse_reads", "phc_read_failures_injected"):
            agg[k] += j.get(k, 0)
        for k in ("kinds", "threshold_edges"):
            for kk, vv in j.get(k, {}).items():
                agg[k][kk] = agg[k].get(kk, 0) + vv
        agg["violations"] += j["violations"]
        agg["samples"] += j["samples"][:1]
    if lost:
        agg["inconclusive"] = "%d real-poller runs did not finish" % lost
    e = agg["threshold_edges"]
    if not agg.get("inconclusive") and (min(e.get(k, 0) for k in ("start-up", "5s-1ns", "5s", "5s+1ns", "inside", "beyond")) < 5):
        agg["inconclusive"] = "threshold edges not all exercised: %s" % e
    return agg


def judge_timeline(j):
    """Expected status of the real segment over time, judged only well away from the transitions.
    Returns (n_judged, list of problem strings)."""
    phases = j["phases"]
    ends = [p[0] for p in phases[1:]] + [1e9]
    bad = []
    judged = 0
    seen_sync = False
    for (start, mode), end in zip(phases, ends):
        for t, status, bound in j["samples"]:
            if not (start <= t < end):
                continue
            rel = t - start
            exp = None
            # Generous margins: polls are ~1 s apart and stretch on a loaded machine.
            if mode == "answer":
                if rel > 2.8:
                    exp = 1
            elif mode == "unsync":
                if rel > 2.8 and seen_sync:
                    exp = 2
            elif mode == "absent" and seen_sync:
                if 2.6 < rel < 3.2:
                    exp = 2
                elif rel > 7.0:
                    exp = 0
            if exp is not None:
                judged += 1
                if status != exp:
                    bad.append("t=%.1fs (%.1fs into phase '%s'): segment status %d expected %d" % (t, rel, mode, status, exp))
        if mode == "answer" and end - start > 2.8:
            seen_sync = True
    return judged, bad


def run_timelines(ctx, scripts):
    """Whole `clockbound` release binary + chronyd stand-in, real time. Returns (judged, violations, samples)."""
    from .common import VERIF
    relbin = os.path.join(ctx.build_repo(["clock-bound-d", "clock-bound-ffi"], release=True), "clockbound")
    cmds, outs = [], []
    for i, sc in enumerate(scripts):
        sf = os.path.join(ctx.tmp, "tl-script-%d.json" % i)
        json.dump(sc, open(sf, "w"))
        o = os.path.join(ctx.tmp, "tl-%d.json" % i)
        outs.append(o)
        cmds.append(sandbox.wrap(["python3", os.path.join(VERIF, "vlib", "nsrun.py"), "timeline", relbin, o, sf]))
    res = ctx.run_parallel(cmds, 300)
    judged = 0
    viol, samples = [], []
    for (rc, text), o, sc in zip(res, outs, scripts):
        if rc != 0 or not os.path.exists(o):
            return 0, [], [], "whole-binary timeline run did not finish: %s" % text[-200:]
        j = json.load(open(o))
        n, bad = judge_timeline(j)
        judged += n
        if not j["daemon_alive_at_end"] and not (isinstance(sc, dict) and sc.get("obstacle_until_s") is not None and not j["samples"]):
            # (on a location that cannot be used a daemon may give up at once, having published nothing)
            bad.append("the daemon died during the run")
        for b in bad[:3]:
            rp = os.path.join(ctx.replay_dir, "C13-timeline-%d.json" % len(viol))
            with open(rp, "w") as f:
                json.dump({"script": sc, "observed": j}, f)
            viol.append({"sig": "whole-binary-status-timeline", "detail": "script %s: %s" % (sc, b), "replay": rp})
        changes = []
        prev = None
        for t, s, b in j["samples"]:
            if s != prev:
                changes.append([t, s])
                prev = s
        samples.append({"script": sc, "status_changes": changes, "chronyd_requests": j["chronyd_requests"], "daemon_alive_at_end": j["daemon_alive_at_end"], "daemon_exit_code": j.get("daemon_exit_code")})
    return judged, viol, samples, None


def run_phc_names(ctx):
    """Whole release binary with reference-id names of every spelling (letters, digits, hex digits only).
    Returns (violations_bound, violations_status, info): the PHC term missing from a Synchronized bound;
    Synchronized published although the PHC error-bound attribute cannot be read."""
    from .common import VERIF
    if not sandbox.available():
        return [], [], {"inconclusive": "unshare -m with a private tmpfs on /run is not available"}
    relbin = os.path.join(ctx.build_repo(["clock-bound-d", "clock-bound-ffi"], release=True), "clockbound")
    names = ["PHC0", "ENA0", "FEED", "AAAA", "1234", "ABCD", "FACE", "0001", "BEEF", "C0DE", "GPS0", "9A9A"]
    chunks = [names[i::4] for i in range(4)]
    cmds, outs = [], []
    for i, ch in enumerate(chunks):
        o = os.path.join(ctx.tmp, "phcnames-%d.json" % i)
        outs.append(o)
        cmds.append(sandbox.wrap(["python3", os.path.join(VERIF, "vlib", "nsrun.py"), "phcnames", relbin, o] + ch))
    vb, vs = [], []
    info = {"runs": 0, "names": names, "synchronized_records_with_phc_term": 0, "runs_without_attribute_not_synchronized": 0}
    for (rc, text), o in zip(ctx.run_parallel(cmds, 300), outs):
        if rc != 0 or not os.path.exists(o):
            info["inconclusive"] = "a reference-id run did not finish: %s" % text[-200:]
            continue
        for r in json.load(open(o)):
            info["runs"] += 1
            sync = [(st, b, n) for st, b, n in r["records_seen"] if st == 1]
            if r["attribute_present"]:
                if not sync:
                    info["inconclusive"] = "no Synchronized record seen for --phc-ref-id %s (%s)" % (r["name"], r["stderr_tail"][-100:])
                for st, b, n in sync:
                    if b < 5000000:
                        vb.append({"sig": "phc-term-missing-for-this-reference-id", "detail": "clockbound --phc-ref-id %s --phc-interface eth0, chronyd reports reference id '%s', the PHC error bound attribute reads 5000000 ns: Synchronized published with bound %d ns (%d samples)" % (r["name"], r["name"], b, n), "replay": ""})
                    else:
                        info["synchronized_records_with_phc_term"] += 1
            else:
                if sync:
                    vs.append({"sig": "synchronized-although-phc-bound-unreadable", "detail": "clockbound --phc-ref-id %s, chronyd reports reference id '%s', the PHC error bound attribute %s: Synchronized published (bound %d ns, %d samples); the report must not count as a measurement" % (r["name"], r["name"], "does not exist" if r.get("attribute_content") is None else "reads back %r (no value)" % r["attribute_content"], sync[0][1], sync[0][2]), "replay": ""})
                else:
                    info["runs_without_attribute_not_synchronized"] += 1
                    if r.get("attribute_content") is not None:
                        info["runs_with_an_attribute_without_a_value"] = info.get("runs_with_an_attribute_without_a_value", 0) + 1
    return vb, vs, info

"""C12 — clock reads are ordered so that delays only make the bound more pessimistic."""
import os
import subprocess

from . import c01, client
from .common import finish


def run(ctx):
    q = ctx.quick()
    agg, viol, samples, incon = c01.run_world(ctx, "c12", 12000 if q else 400000)
    ctx.log("c12: %d histories, %d as_of checks, %d client read-order checks, %d delay pairs, min margin %s ns" % (agg["evaluations"], agg["msg_checks"], agg["order_checks"], agg["gap_checks"], agg["min_margin_ns"]))
    # The same order through the C ABI.
    cdrv = client.build_cdriver(ctx, sanitize=True)
    shm = "/dev/shm/cbverif-c12-%d" % os.getpid()
    p = subprocess.run([cdrv, "order", shm], stdout=subprocess.PIPE, stderr=subprocess.STDOUT, text=True, timeout=60)
    try:
        os.unlink(shm)
    except OSError:
        pass
    first = p.stdout.splitlines()[0] if p.stdout else ""
    ids = first.split()[1:] if first.startswith("CLOCKS") else []
    last_real = max([i for i, c in enumerate(ids) if c == "0"] or [-1])
    last_mono = max([i for i, c in enumerate(ids) if c != "0"] or [-1])
    if p.returncode != 0 or last_real < 0 or last_mono < last_real:
        viol.append({"sig": "c-abi-read-order", "detail": "clockbound_now() read the clocks as '%s' (a monotonic clock must be read after CLOCK_REALTIME (0))" % first, "replay": ""})
    # Every path through now(): the C14/C05 vector sweeps (inside the blur, breaches, old records ...)
    # with the interposer recording the order of the clock reads of each call.
    rel = client.build_clientsim(ctx, True)
    sw, sviol, _ss = client.sweep(ctx, rel, "C14", 2000000 if q else 40000000, 12)
    sw2, sviol2, _ss2 = client.sweep(ctx, rel, "C05", 1000000 if q else 20000000, 13)
    viol += [v for v in sviol + sviol2 if v["sig"] == "clock-read-order"]
    ctx.log("read-order monitor over the vector sweeps: %d calls" % (sw["evaluations"] + sw2["evaluations"]))
    # The real poller over a real socket: every report must stem from a request issued in its own poll.
    from . import c13real
    real = c13real.run_real(ctx, slow=True)
    viol += [v for v in real["violations"] if v["sig"] in ("report-not-from-this-poll", "real-poller-measurement")]
    inconclusive = incon
    if agg["shards_lost"]:
        inconclusive = "%d shards did not finish" % agg["shards_lost"]
    elif agg["msg_checks"] < 1000 or agg["gap_checks"] < 1000 or agg["order_checks"] < 1000:
        inconclusive = "monitors observed too little"
    coverage = {
        "evaluations": agg["evaluations"],
        "distinct_nontrivial": agg["distinct"],
        "rule": "C01's world with delay injection: chronyd's request and reply each delayed by up to 30 s of virtual time while the clock drifts at the maximum rate, a delay of up to 2 s injected between the client's two clock reads; "
                "monitors on the interposer's read log: (1) the as_of of every measurement message equals a monotonic reading the poller took before the request was issued and is not later than the instant chronyd sampled; "
                "(2) every now() reads CLOCK_REALTIME first and the monotonic clock second (also through the C ABI); (3) at the same instant, the half-width with a delay between the two reads is >= the half-width without; (4) containment (C01's oracle) under all of it; "
                "distinct_nontrivial = distinct history seeds",
        "samples": samples[:2] + [{"c_abi_clock_reads": first}],
        "as_of_checks": agg["msg_checks"],
        "sweep_calls_with_order_monitor": sw["evaluations"] + sw2["evaluations"],
        "real_poller_steps": real.get("steps"),
        "client_order_checks": agg["order_checks"],
        "delay_pairs": agg["gap_checks"],
        "min_margin_ns": agg["min_margin_ns"],
        "answers_by_status": agg["answers_by_status"],
    }
    finish(ctx, coverage, viol, inconclusive, assumptions=["delays are virtual time advanced by the interposer / the mock chronyd, the real code runs unmodified"])


replay = c01.replay

"""C13 — chronyd outages and PHC read failures degrade status on schedule."""
from . import c01
from .common import finish


def run(ctx):
    q = ctx.quick()
    agg, viol, samples, incon = c01.run_world(ctx, "c13", 12000 if q else 400000)
    kinds = agg["outcomes_by_kind"]
    ctx.log("c13 (mock level): %d histories, %d polls, kinds %s" % (agg["evaluations"], agg["polls"], {k: v for k, v in kinds.items() if "/" not in k}))
    from . import c13real
    real = c13real.run_real(ctx)
    viol += real["violations"]
    ctx.log("c13 (real poller over a unix socket, private /run): %s" % {k: v for k, v in real.items() if k not in ("violations", "samples")})
    scripts = [[[3.6, "answer"], [9.0, "absent"], [3.6, "unsync"], [3.6, "answer"]]]
    if not q:
        scripts += [[[2.8, "absent"], [3.8, "answer"], [3.2, "absent"], [3.8, "answer"], [9.5, "absent"]], [[4.0, "answer"], [4.0, "unsync"], [9.0, "absent"], [4.0, "unsync"]], [[3.0, "unsync"], [3.8, "answer"], [12.0, "absent"]]]
    tl_judged, tl_viol, tl_samples, tl_incon = c13real.run_timelines(ctx, scripts)
    viol += tl_viol
    ctx.log("c13 (whole release binary + chronyd stand-in, real time): %d status samples judged in %d timelines" % (tl_judged, len(scripts)))
    # reference-id names of every spelling through the command line: an unreadable PHC attribute degrades the status for all of them
    _vb, vs, name_info = c13real.run_phc_names(ctx)
    viol += vs
    ctx.log("reference-id names through the command line: %s" % {k: v for k, v in name_info.items() if k != "names"})
    inconclusive = incon or real.get("inconclusive") or tl_incon or name_info.get("inconclusive")
    if not inconclusive and tl_judged < 20:
        inconclusive = "whole-binary timelines yielded only %d judged samples" % tl_judged
    if agg["shards_lost"]:
        inconclusive = "%d shards did not finish" % agg["shards_lost"]
    else:
        need = ["ChronyNotResponding", "ChronyNotRespondingGracePeriod"]
        if any(kinds.get(k, 0) < 100 for k in need) or sum(v for k, v in kinds.items() if k.startswith("PhcErrorBoundRetrievalFailed")) < 100:
            inconclusive = "monitors observed too little: %s" % kinds
    coverage = {
        "evaluations": agg["evaluations"] + real.get("evaluations", 0),
        "distinct_nontrivial": agg["distinct"] + real.get("distinct", 0),
        "rule": "(mock level) C01's world with a PHC always configured: per poll the class of the message delivered by the real poller loop must follow the model — no answer: FreeRunning-class iff the last answer is less than 5 s old when the poller asks, Unknown-class otherwise (right after start: Unknown-class); "
                "answer: a measurement, carrying the PHC file's value iff the configured reference id equals the report's (ids equal / one bit off / 0 / random), 0 otherwise; PHC is the reference but unreadable: a non-measurement outcome and the published (bound, as_of) unchanged. "
                "(real poller) the real ClockErrorBoundPoller over a real unix datagram socket to a scripted in-process chronyd inside a private mount namespace, virtual Instant: silences at 5 s -/+ 1 ns after the last good answer, at start-up, after long gaps, socket vanished (fast) and silent (3 real 1 s timeouts, thorough). (whole binary) the release `clockbound` and a chronyd stand-in in a private /run, real time: the status of the real segment sampled every 100 ms must follow answer -> Synchronized, chronyd gone -> FreeRunning, then Unknown 5 s after the last answer, unsynchronised -> FreeRunning; judged only >= 1.2 s away from each expected transition. distinct_nontrivial = distinct history seeds + distinct real-poller scripts",
        "samples": samples[:2] + real.get("samples", [])[:2],
        "outcomes_by_kind": kinds,
        "real_poller": {k: v for k, v in real.items() if k not in ("violations", "samples")},
        "whole_binary_timelines": {"scripts": len(scripts), "status_samples_judged": tl_judged, "observed": tl_samples},
    }
    finish(ctx, coverage, viol, inconclusive, assumptions=["mock level: the grace flag is computed by the harness as the real poller would; the real-poller runs compute it with the real Instant logic"])


replay = c01.replay

"""C18 — reading never blocks on, or spins forever because of, the daemon."""
from . import shm
from .common import NPROC, finish


def run(ctx):
    q = ctx.quick()
    b = shm.shmsim(ctx)
    parts = shm.run_single(ctx, b, ["c18cap", "--seed", str(ctx.seed)] + ([] if q else ["--allgens", "1"]), NPROC, 3600)
    cap = {"evaluations": 0, "stuck_cases": 0, "capped_calls": 0, "new_client_cases": 0, "start_generation_cases": 0}
    mx = 0
    viol, samples = [], []
    lost = 0
    viol_crash = shm.crash_violations(parts)
    for p in parts:
        if p is None:
            lost += 1
            continue
        if p.get("_crashed"):
            continue
        for k in cap:
            cap[k] += p.get(k, 0)
        mx = max(mx, p.get("max_accesses_per_call", 0))
        viol += p["violations"]
        samples += p["samples"]
    viol += viol_crash
    ctx.log("c18cap: %s max accesses %d" % (cap, mx))
    cov, sviol, ssamples = shm.run_sched(ctx, b, "C18", 8000 if q else 100000)
    ctx.log("sched: %d scenarios, odd-entry calls %d, max accesses %d" % (cov["scenarios"], cov["odd_entry_calls"], cov["max_accesses_per_call"]))
    viol += sviol
    # the daemon as a separate, stalled (alive) process
    sparts = shm.run_single(ctx, b, ["stallproc", "--seed", str(ctx.seed)], NPROC, 1800)
    stall = {"evaluations": 0, "inconclusive_cases": 0, "cells": {}, "outcomes": {}}
    viol += shm.crash_violations(sparts)
    for p in sparts:
        if p is None:
            lost += 1
            continue
        if p.get("_crashed"):
            continue
        stall["evaluations"] += p["evaluations"]
        stall["inconclusive_cases"] += p["inconclusive_cases"]
        for key in ("cells", "outcomes"):
            for k, v in p[key].items():
                stall[key][k] = stall[key].get(k, 0) + v
        viol += p["violations"]
        samples += p["samples"][:1]
    ctx.log("stallproc: %d cases, %d cells, outcomes %s, inconclusive %d" % (stall["evaluations"], len(stall["cells"]), stall["outcomes"], stall["inconclusive_cases"]))
    inconclusive = None
    if lost or cov["shards_lost"] or cov["inconclusive"]:
        inconclusive = "some runs did not finish (lost %d/%d, scenarios over the step budget %d)" % (lost, cov["shards_lost"], cov["inconclusive"])
    elif cap["capped_calls"] < 1 or cap["stuck_cases"] < 100 or cov["odd_entry_calls"] < 100:
        inconclusive = "monitors observed too little (capped calls %d, stuck cases %d, odd-entry calls %d)" % (cap["capped_calls"], cap["stuck_cases"], cov["odd_entry_calls"])
    if not inconclusive and (stall["evaluations"] < 100 or stall["inconclusive_cases"] > stall["evaluations"] // 10):
        inconclusive = "stalled-process engine observed too little (%d cases, %d inconclusive)" % (stall["evaluations"], stall["inconclusive_cases"])
    coverage = {
        "evaluations": cap["evaluations"] + cov["scenarios"] + stall["evaluations"],
        "distinct_nontrivial": cap["stuck_cases"] + cov["distinct_schedules"] + len(stall["cells"]),
        "rule": "c18cap: (a) an adversary completing 1 or 2 whole real updates each time the reader has copied the last word (drives the real retry loop to its cap) and one that gives up after 1000 retries; "
                "(a2) adversaries mixing in-flight and completed updates at the re-check in fixed patterns; (a3) one update per retry from 160 start generations (quick: wrap neighbours + random; thorough: all 32767 even values); (b) all 144 pairs (reader at its j-th shared access, writer dead for ever at the k-th point of an update); (c) writer dead at each of its 12 points from start generations 6, 65534 and 1 (already odd), then the very first call of a client that attaches afterwards; oracle: shared accesses per snapshot() <= 5e7, no torn record, an answer once the writer is idle. "
                "stallproc: the daemon is a separate process (hooks on) that stalls alive for ever at its k-th hook point of start-up, first and second update, for every k and 15 start states; a client in this process then opens and reads in a watched thread; a call that is not back is judged by what its thread does (/proc task state and system call: 40 consecutive samples not runnable inside one blocking call while the only other party is stalled = waiting for the daemon), the work meter bounds clock reads and sleeps per call; signals (150 us period) and errno values are hostile throughout. "
                "sched: seeded scenarios with writers that die for ever; oracle also: a call entered at an odd generation makes <= 4 accesses and returns its cache. distinct = stuck pairs + distinct interleaving traces",
        "samples": samples[:6] + ssamples[:1],
        "max_accesses_per_call": max(mx, cov["max_accesses_per_call"]),
        "cap": cap,
        "stalled_daemon_process": dict(stall, cells=len(stall["cells"])),
        "sched": cov,
    }
    # a long-lived client whose segment file is replaced under it (removed and created anew, as a service
    # manager does with a run-time directory) by a daemon that then stalls or dies before its first
    # publication: the file at the path holds a header with version or generation 0 for ever. Every call
    # must still come back, whatever the age and status of the record the client holds.
    import os
    import subprocess
    from . import client as _cl
    repl = {"calls": 0, "answers": {}, "runs": 0}
    script, ncalls = [], 0
    for status in (1, 2, 0):
        for age in (0, 6, 1200):
            for ver, g in ((0, 0), (1, 0), (0, 2), (1, 2)):
                script.append("W 2 1000 0 2000 0 5000 50000 %d" % status)
                script.append("O")
                script.append("N 1700001000 0 1000 5")
                script.append("N %d 0 %d 5" % (1700001000 + age, 1000 + age))
                script.append("R %d %d" % (ver, g))
                for extra in (0, 0, 1, 7, 1300):
                    script.append("N %d 0 %d 5" % (1700001000 + age + extra, 1000 + age + extra))
                script.append("C")
                ncalls += 7
    sp = os.path.join(ctx.tmp, "c18-replace.txt")
    with open(sp, "w") as f:
        f.write("\n".join(script) + "\n")
    for api, cmd in (("rust", [_cl.build_clientsim(ctx, True), "script", "--script", sp, "--shm", "/dev/shm/cbverif-c18r-r-%d" % os.getpid()]),
                     ("c", [_cl.build_cdriver(ctx, sanitize=False), "script", sp, "/dev/shm/cbverif-c18r-c-%d" % os.getpid()])):
        pr = subprocess.Popen(cmd, stdout=subprocess.PIPE, stderr=subprocess.PIPE, text=True, env=ctx.env)
        try:
            out, err = pr.communicate(timeout=120)
            hung = False
        except subprocess.TimeoutExpired:
            # what is the process doing? (a busy loop or a sleep loop, both are "not back")
            try:
                st = open("/proc/%d/stat" % pr.pid).read().split()
                doing = "state %s, utime %s stime %s ticks" % (st[2], st[13], st[14])
            except OSError:
                doing = "?"
            pr.kill()
            out, err = pr.communicate()
            hung = True
        try:
            os.unlink(cmd[-1])
        except OSError:
            pass
        lines = [ln for ln in out.splitlines() if ln.startswith(("OK ", "ERR ", "NOCTX"))]
        repl["runs"] += 1
        repl["calls"] += len(lines)
        for ln in lines:
            k = api + ":" + " ".join(ln.split()[:2]) if ln.startswith("ERR") else api + ":OK status " + ln.split()[-1]
            repl["answers"][k] = repl["answers"].get(k, 0) + 1
        if hung:
            done = len(lines)
            viol.append({"sig": "call-never-returns-after-segment-file-replaced", "detail": "%s client: call %d of a script did not return within 120 s (the whole script takes milliseconds); %s. Script block %d: a client holding a record, the segment file then removed and created anew with a header that is not initialised (version/generation 0), nothing published afterwards" % (api, done + 1, doing, done // 7), "replay": sp})
        elif pr.returncode < 0 and -pr.returncode in (4, 6, 7, 8, 11):
            viol.append({"sig": "client-crashes-after-segment-file-replaced", "detail": "%s client died of signal %d after %d answers: %s" % (api, -pr.returncode, len(lines), err[-300:]), "replay": sp})
        elif pr.returncode != 0 or len(lines) != ncalls:
            if not inconclusive:
                inconclusive = "replaced-file script: %s client exited %d with %d of %d answers: %s" % (api, pr.returncode, len(lines), ncalls, err[-200:])
    coverage["segment_file_replaced_under_a_client"] = repl
    # threads and forked children in a C client (own contexts, handed-over contexts, inherited contexts)
    from . import client as _client
    _mv, _ms = _client.run_mt(ctx, "C18", 2.0 if ctx.quick() else 20.0)
    viol += _mv
    coverage["multi_threaded_c_client"] = _ms
    if any("inconclusive" in str(v) or str(v).startswith("exit ") for v in _ms.values()) and not inconclusive:
        inconclusive = "multi-threaded C client scenario did not complete: %s" % _ms
    finish(ctx, coverage, viol, inconclusive, assumptions=["work is counted in shared-memory accesses reported by the hooks, not in wall-clock time"])


def replay(ctx, path):
    shm.replay(ctx, path)

"""C02 — a snapshot is never a mixture of two published records."""
import json
import os

from . import daemon, sandbox, shm
from .common import VERIF, finish


def run(ctx):
    q = ctx.quick()
    b = shm.shmsim(ctx)
    cov, viol, samples = shm.run_sched(ctx, b, "C02", 60000 if q else 1500000)
    ctx.log("sched: %d scenarios, %d distinct schedules, %d overlapped calls" % (cov["scenarios"], cov["distinct_schedules"], cov["overlapped_calls"]))
    magg, mviol, msamples, lost = shm.run_miri(ctx, "c02", 48 if q else 1024, 20)
    ctx.log("miri: %s, lost %d" % (magg, lost))
    viol = viol + shm.miri_violations_for(ctx, mviol, "C02")
    pagg, pviol = shm.run_proc(ctx, 8 if q else 120)
    ctx.log("proc: %s" % pagg)
    viol += [v for v in pviol if v["sig"] in ("proc-torn-snapshot", "generation-aba-blend", "proc-torn-or-error", "proc-unpublished", "reader-crashed", "reader-died", "reader-process-died")]
    # the 16-bit generation comes back to the same value after 32767 publications: a reader stalled
    # inside its copy for exactly that long (KNOWN_FINDINGS.txt)
    aviol, aba, asamples = shm.run_aba(ctx, b)
    viol += aviol
    samples += asamples
    ctx.log("generation cycle (ABA) cases: %s" % aba)
    # The daemon's own ways of stopping: (1) a new incarnation over a segment left mid-update, stopped
    # after 0..3 outcomes; (2) the real (hooked) binary receiving signals or losing a worker, with
    # the single-writer monitor on.
    db = daemon.build(ctx)
    sparts = ctx.run_shards(db, ["c02stop", "--seed", str(ctx.seed)], 4, 600)
    stop_cov = {"evaluations": 0, "results": {}}
    viol += shm.crash_violations(sparts)
    for p in sparts:
        if p is None or p.get("_crashed"):
            continue
        stop_cov["evaluations"] += p["evaluations"]
        for k, v in p["results"].items():
            stop_cov["results"][k] = stop_cov["results"].get(k, 0) + v
        viol += p["violations"]
    ctx.log("daemon stopped over a half-written segment: %s" % stop_cov)
    sviol2, sig_cov = shm.single_writer_runs(ctx)
    viol += sviol2
    ctx.log("whole daemon under signals / worker deaths, single-writer monitor: %s" % sig_cov)
    inconclusive = None
    if cov["overlapped_calls"] < 1000 or magg["publication_changes_seen"] < 100 or magg["nondefault_snapshots"] < 500:
        inconclusive = "monitors observed too little (overlapped calls %d, miri publication changes %d)" % (cov["overlapped_calls"], magg["publication_changes_seen"])
    if lost > (2 if q else 20) or cov["shards_lost"]:
        inconclusive = "%d Miri processes and %d sched shards did not finish" % (lost, cov["shards_lost"])
    coverage = {
        "evaluations": cov["scenarios"] + magg["scenarios"],
        "distinct_nontrivial": cov["distinct_schedules"],
        "rule": "sched: seeded random scenarios (start state x 1-8 publications x 1-3 readers x switch rates), one evaluation = one scenario run under the token scheduler; "
                "distinct = distinct (task, site) interleaving traces among scenarios in which a reader call overlapped an update or observed a new publication. "
                "miri: each evaluation is one scenario of real threads under Miri's weak-memory emulation (not counted in distinct_nontrivial: Miri traces are not hashed).",
        "samples": samples[:2] + [{"miri": s} for s in msamples[:2]],
        "sched": cov,
        "miri": dict(magg, processes_lost=lost),
        "proc": pagg,
        "generation_cycle_cases": aba,
        "daemon_stopped_over_half_written_segment": stop_cov,
        "whole_daemon_single_writer_monitor": sig_cov,
        "exhaustive": False,
    }
    # threads and forked children in a C client (own contexts, handed-over contexts, inherited contexts)
    from . import client as _client
    _mv, _ms = _client.run_mt(ctx, "C02", 2.0 if ctx.quick() else 20.0)
    viol += _mv
    coverage["multi_threaded_c_client"] = _ms
    if any("inconclusive" in str(v) or str(v).startswith("exit ") for v in _ms.values()) and not inconclusive:
        inconclusive = "multi-threaded C client scenario did not complete: %s" % _ms
    finish(ctx, coverage, viol, inconclusive, assumptions=[
        "Miri's weak-memory emulation under-approximates C11 (no load buffering); hardware behaviours outside it are not reached",
        "hooked build: the record copy is 7 relaxed 64-bit accesses (hook H3) so that Miri can serve stale words instead of aborting on the intended race",
    ])


def replay(ctx, path):
    shm.replay(ctx, path)

"""C02 — a snapshot is never a mixture of two published records."""
from . import shm
from .common import finish


def run(ctx):
    q = ctx.quick()
    b = shm.shmsim(ctx)
    cov, viol, samples = shm.run_sched(ctx, b, "C02", 60000 if q else 3000000)
    ctx.log("sched: %d scenarios, %d distinct schedules, %d overlapped calls" % (cov["scenarios"], cov["distinct_schedules"], cov["overlapped_calls"]))
    magg, mviol, msamples, lost = shm.run_miri(ctx, "c02", 48 if q else 1024, 20)
    ctx.log("miri: %s, lost %d" % (magg, lost))
    viol = viol + shm.miri_violations_for(ctx, mviol, "C02")
    pagg, pviol = shm.run_proc(ctx, 8 if q else 120)
    ctx.log("proc: %s" % pagg)
    viol += [v for v in pviol if v["sig"] in ("proc-torn-snapshot", "proc-torn-or-error", "proc-unpublished", "reader-crashed", "reader-died", "reader-process-died")]
    inconclusive = None
    if cov["overlapped_calls"] < 1000 or magg["publication_changes_seen"] < 100 or magg["nondefault_snapshots"] < 500:
        inconclusive = "monitors observed too little (overlapped calls %d, miri publication changes %d)" % (cov["overlapped_calls"], magg["publication_changes_seen"])
    if lost > (2 if q else 20) or cov["shards_lost"]:
        inconclusive = "%d Miri processes and %d sched shards did not finish" % (lost, cov["shards_lost"])
    coverage = {
        "evaluations": cov["scenarios"] + magg["scenarios"],
        "distinct_nontrivial": cov["distinct_schedules"],
        "rule": "sched: seeded random scenarios (start state x 1-8 publications x 1-3 readers x switch rates), one evaluation = one scenario run under the token scheduler; "
                "distinct = distinct (task, site) interleaving traces among scenarios in which a reader call overlapped an update or observed a new publication. "
                "miri: each evaluation is one scenario of real threads under Miri's weak-memory emulation (not counted in distinct_nontrivial: Miri traces are not hashed).",
        "samples": samples[:2] + [{"miri": s} for s in msamples[:2]],
        "sched": cov,
        "miri": dict(magg, processes_lost=lost),
        "proc": pagg,
        "exhaustive": False,
    }
    finish(ctx, coverage, viol, inconclusive, assumptions=[
        "Miri's weak-memory emulation under-approximates C11 (no load buffering); hardware behaviours outside it are not reached",
        "hooked build: the record copy is 7 relaxed 64-bit accesses (hook H3) so that Miri can serve stale words instead of aborting on the intended race",
    ])


def replay(ctx, path):
    shm.replay(ctx, path)

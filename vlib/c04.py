"""C04 — daemon death at any point, and its restart, never harm attached clients."""
from . import shm
from .common import NPROC, finish


def run(ctx):
    q = ctx.quick()
    b = shm.shmsim(ctx)
    parts = shm.run_single(ctx, b, ["stopenum", "--focus", "C04", "--seed", str(ctx.seed), "--schedules", "16" if q else "128"], NPROC, 3000)
    ecov, eviol, esamples = shm.merge_sched(parts)
    plans = max([p.get("stop_plans", 0) for p in parts if p] or [0])
    crashed = any(p and p.get("_crashed") for p in parts)
    table = {}
    for p in parts:
        if p:
            for k, v in p.get("stop_table", {}).items():
                table[k] = table.get(k, 0) + v
    start_states = next((p.get("start_states") for p in parts if p and p.get("start_states")), [])
    ctx.log("stopenum: %d plans, %d (start|site) cells reached, %d scenarios" % (plans, len(table), ecov["scenarios"]))
    cov, viol, samples = shm.run_sched(ctx, b, "C04", 20000 if q else 1000000)
    ctx.log("sched: %d scenarios, stops %d restarts %d takeovers %d wipes %d" % (cov["scenarios"], cov["stops"], cov["restarts"], cov["takeovers"], cov["wipes"]))
    magg, mviol, msamples, mlost = shm.run_miri(ctx, "c04", 16 if q else 256, 20)
    ctx.log("miri c04: %s lost %d" % (magg, mlost))
    viol = eviol + viol + shm.miri_violations_for(ctx, mviol, "C04")
    pagg, pviol = shm.run_proc(ctx, 10 if q else 180)
    ctx.log("proc (SIGKILL/restart of real writer processes, guard off): %s" % pagg)
    viol += pviol
    inconclusive = None
    if crashed:
        pass
    elif plans < 100 or len(table) < plans or ecov["after_crash_calls"] < 1000 or ecov["takeovers"] < 100 or ecov["wipes"] < 100 or magg["stops"] < 20:
        inconclusive = "fault enumeration incomplete (plans %d, cells reached %d, calls after a crash %d, takeovers %d, wipes %d, miri stops %d)" % (
            plans, len(table), ecov["after_crash_calls"], ecov["takeovers"], ecov["wipes"], magg["stops"])
    if ecov["shards_lost"] or cov["shards_lost"] or mlost > (1 if q else 8):
        inconclusive = "some runs did not finish"
    coverage = {
        "evaluations": ecov["scenarios"] + cov["scenarios"] + magg["scenarios"],
        "distinct_nontrivial": len(table),
        "rule": "fault enumeration: for each of %d start states (no file, no directory, garbage, wiped, valid even/odd, near wrap) the writer program [start-up, publish, publish, restart, publish, publish] is first run alone to count its hook points "
                "(every shared-memory access and every file operation of start-up/wipe); then one scenario per (start state, op, k-th point) stops the writer exactly there, restarts it, and runs under >=16 (quick) / 128 (thorough) seeded reader schedules; "
                "distinct_nontrivial = distinct (start state | op : site) cells in which the stop was actually reached. Random C04 scenarios (sched) and Miri stop/restart scenarios add sampled depth." % len(start_states),
        "samples": esamples[:2] + samples[:1] + [{"miri": s} for s in msamples[:1]],
        "exhaustive": True,
        "exhaustive_over": "(start state x writer op x hook point) of the first incarnation; schedules and second stops are sampled",
        "stop_plans": plans,
        "stop_table": table,
        "start_states": start_states,
        "enumeration": ecov,
        "sched": cov,
        "miri": dict(magg, processes_lost=mlost),
        "proc": pagg,
    }
    finish(ctx, coverage, viol, inconclusive, assumptions=["crash points are the hook sites (between every shared-memory or file operation), not every machine instruction",
                                                          "a stop drops the writer's mapping only (munmap), the file keeps whatever state the stop left, as with a killed process"])


def replay(ctx, path):
    shm.replay(ctx, path)

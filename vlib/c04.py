"""C04 — daemon death at any point, and its restart, never harm attached clients."""
import os
import shutil
import struct

from . import c16, client, protocol, shm
from .common import NPROC, finish


def run(ctx):
    q = ctx.quick()
    b = shm.shmsim(ctx)
    parts = shm.run_single(ctx, b, ["stopenum", "--focus", "C04", "--seed", str(ctx.seed), "--schedules", "16" if q else "128", "--signals", "1" if q else "2"], NPROC, 3000)
    ecov, eviol, esamples = shm.merge_sched(parts)
    plans = max([p.get("stop_plans", 0) for p in parts if p] or [0])
    crashed = any(p and p.get("_crashed") for p in parts)
    table = {}
    for p in parts:
        if p:
            for k, v in p.get("stop_table", {}).items():
                table[k] = table.get(k, 0) + v
    start_states = next((p.get("start_states") for p in parts if p and p.get("start_states")), [])
    ctx.log("stopenum: %d plans, %d (start|site) cells reached, %d scenarios" % (plans, len(table), ecov["scenarios"]))
    cov, viol, samples = shm.run_sched(ctx, b, "C04", 20000 if q else 600000)
    ctx.log("sched: %d scenarios, stops %d restarts %d takeovers %d wipes %d" % (cov["scenarios"], cov["stops"], cov["restarts"], cov["takeovers"], cov["wipes"]))
    magg, mviol, msamples, mlost = shm.run_miri(ctx, "c04", 16 if q else 256, 20)
    ctx.log("miri c04: %s lost %d" % (magg, mlost))
    viol = eviol + viol + shm.miri_violations_for(ctx, mviol, "C04")
    pagg, pviol = shm.run_proc(ctx, 10 if q else 180)
    ctx.log("proc (SIGKILL/restart of real writer processes, guard off): %s" % pagg)
    viol += pviol
    # (a) "only complete records (C02)": the generation cycle of KNOWN_FINDINGS.txt holds here as well
    aviol, aba, _as = shm.run_aba(ctx, b)
    viol += aviol
    # A client that waits for the service: it retries its attach all through the window in which
    # the file exists but is not usable (a daemon that died while initialising, or one that wiped
    # and has not published yet); once the restarted daemon has repaired the file it must attach.
    csim = client.build_clientsim(ctx, True)
    wd = "/dev/shm/cbverif-c04-wait-%d" % os.getpid()
    os.makedirs(wd, exist_ok=True)
    try:
        valid = protocol.encode((10, 0), (20, 0), 5, 1000, 0, 1, generation=4, magic=c16.real_magic(ctx, csim))
        wiped = bytearray(valid)
        struct.pack_into("=H", wiped, 14, 0)
        left = {"empty": b"", "magic-only": valid[:8], "header-only": bytes(wiped[:16]), "header-and-half-record": bytes(wiped[:40]), "wiped-not-published": bytes(wiped), "valid": valid}
        for n, c in left.items():
            with open(os.path.join(wd, n), "wb") as f:
                f.write(c)
        waiting = [os.path.join(wd, n) for n in left if n != "valid"]
        wviol, wstats, _ = c16.open_stress(ctx, csim, None, waiting, waiting, os.path.join(wd, "valid"), simultaneous=0, tag="C04")
        for v in wviol:
            v["sig"] = "waiting-client-" + v["sig"]
        viol += wviol
        ctx.log("waiting client: %s" % wstats)
    finally:
        shutil.rmtree(wd, ignore_errors=True)
    # The whole release binary killed and restarted over its own segment with a client attached all along;
    # what the file's timestamps say at the restart varies (tmpfs never refreshes the mtime of a mapped file:
    # after 17 minutes of uptime every segment "looks" old).
    import json
    from . import sandbox
    from .common import VERIF
    binary_info = {"runs": 0, "ages": []}
    binary_incon = None
    if sandbox.available():
        relbin = os.path.join(ctx.build_repo(["clock-bound-d", "clock-bound-ffi"], release=True), "clockbound")
        ages = ["keep", "-1001", "-7200", "-630000000", "3600"] if q else ["keep", "-999", "-1001", "-3600", "-7200", "-86400", "-630000000", "3600", "-1700000000"]
        cmds, outs = [], []
        for i, age in enumerate(ages):
            o = os.path.join(ctx.tmp, "c04restart-%d.json" % i)
            outs.append(o)
            cmds.append(sandbox.wrap(["python3", os.path.join(VERIF, "vlib", "nsrun.py"), "c04restart", relbin, o, age]))
        for (rc, text), o in zip(ctx.run_parallel(cmds, 300), outs):
            if rc != 0 or not os.path.exists(o):
                binary_incon = "a whole-binary restart run did not finish: %s" % text[-200:]
                continue
            for r in json.load(open(o)):
                binary_info["runs"] += 1
                binary_info["ages"].append({"file_time_relative_s": r["age"], "generations_through_old_mapping": r.get("generations_seen_through_the_old_mapping"), "sizes_seen": r.get("sizes_seen")})
                if r.get("inconclusive"):
                    binary_incon = r["inconclusive"]
                for pr in r.get("problems", []):
                    viol.append({"sig": "whole-binary-restart-harms-attached-client", "detail": "clockbound killed after publishing (generation %s) and restarted with the segment file's timestamps set %s s relative to now, a client attached all along: %s" % (r.get("generation_at_death"), r["age"], pr), "replay": ""})
        ctx.log("whole binary restarted under an attached client: %s" % binary_info)
    inconclusive = None
    if crashed:
        pass
    elif plans < 100 or len(table) < plans or ecov["after_crash_calls"] < 1000 or ecov["takeovers"] < 100 or ecov["wipes"] < 100 or magg["stops"] < 20:
        inconclusive = "fault enumeration incomplete (plans %d, cells reached %d, calls after a crash %d, takeovers %d, wipes %d, miri stops %d)" % (
            plans, len(table), ecov["after_crash_calls"], ecov["takeovers"], ecov["wipes"], magg["stops"])
    if ecov["shards_lost"] or cov["shards_lost"] or mlost > (1 if q else 8):
        inconclusive = "some runs did not finish"
    if binary_incon and not inconclusive:
        inconclusive = binary_incon
    coverage = {
        "evaluations": ecov["scenarios"] + cov["scenarios"] + magg["scenarios"],
        "distinct_nontrivial": len(table),
        "rule": "fault enumeration: for each of %d start states (no file, no directory, garbage, wiped, valid even/odd, near wrap) the writer program [start-up, publish, publish, restart, publish, publish] is first run alone to count its hook points "
                "(every shared-memory access and every file operation of start-up/wipe); then one scenario per (start state, op, k-th point) stops the writer exactly there, restarts it, and runs under >=16 (quick) / 128 (thorough) seeded reader schedules; "
                "distinct_nontrivial = distinct (start state | op : site) cells in which the stop was actually reached. Random C04 scenarios (sched) and Miri stop/restart scenarios add sampled depth." % len(start_states),
        "samples": esamples[:2] + samples[:1] + [{"miri": s} for s in msamples[:1]],
        "exhaustive": True,
        "exhaustive_over": "(start state x writer op x hook point) of the first incarnation; schedules and second stops are sampled",
        "stop_plans": plans,
        "stop_table": table,
        "start_states": start_states,
        "enumeration": ecov,
        "sched": cov,
        "miri": dict(magg, processes_lost=mlost),
        "proc": pagg,
        "generation_cycle_cases": aba,
        "waiting_client": dict(wstats, states=sorted(left)),
        "whole_binary_restart_under_attached_client": binary_info,
    }
    finish(ctx, coverage, viol, inconclusive, assumptions=["crash points are the hook sites (between every shared-memory or file operation), not every machine instruction",
                                                          "a stop drops the writer's mapping only (munmap), the file keeps whatever state the stop left, as with a killed process"])


def replay(ctx, path):
    shm.replay(ctx, path)

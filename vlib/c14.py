"""C14 — client calls fail cleanly instead of answering from inconsistent data."""
from . import c05

RULE = ("as C05's rig; generator: monotonic reading at -2..+2 ns around as_of minus the 1000 ns blur, shallow and deep breaches, inside the blur, range extremes (+-68 years, nsec 0/999999999), bounds 0 / 2^60-1 / random, "
        "drift at 999999999, 1e9, 1e9+1, u32::MAX, random invalid, valid; oracle: causality error iff mono < as_of - blur (either answer exactly at the edge), malformed-segment error iff drift >= 1e9, "
        "otherwise an interval; every call runs under catch_unwind in release and in an overflow-checked debug build, so a panic or arithmetic overflow is an observed outcome; distinct_nontrivial = distinct input vectors")


def run(ctx):
    c05.run_prop(ctx, "C14", RULE, min_cells=35, require={"err-CausalityBreach": 1000, "err-SegmentMalformed": 1000, "ok-status1": 1000})


replay = c05.replay

"""C03 — snapshots never go back in time and catch up once the writer is idle."""
from . import shm
from .common import NPROC, finish


def run(ctx):
    q = ctx.quick()
    b = shm.shmsim(ctx)
    cov, viol, samples = shm.run_sched(ctx, b, "C03", 60000 if q else 1500000)
    ctx.log("sched: %d scenarios, %d distinct, %d idle-window calls" % (cov["scenarios"], cov["distinct_schedules"], cov["idle_calls"]))
    parts = shm.run_single(ctx, b, ["c03long", "--seed", str(ctx.seed), "--rounds", "4" if q else "60", "--signals", "1" if q else "2"], NPROC, 1800)
    lng = {"evaluations": 0, "idle_calls": 0, "wrap_crossings": 0, "exception_cases": 0, "distinct": 0, "sparse_change_checks": 0, "cold_restarts_with_attached_reader": 0}
    lsamples = []
    lost = 0
    viol_crash = shm.crash_violations(parts)
    for p in parts:
        if p is None:
            lost += 1
            continue
        if p.get("_crashed"):
            continue
        for k in lng:
            lng[k] += p.get(k, 0)
        viol += p["violations"]
        lsamples += p["samples"][:1]
    viol += viol_crash
    ctx.log("c03long: %s" % lng)
    magg, mviol, msamples, mlost = shm.run_miri(ctx, "c03", 16 if q else 256, 20)
    ctx.log("miri c03: %s lost %d" % (magg, mlost))
    viol += shm.miri_violations_for(ctx, mviol, "C03")
    pagg, pviol = shm.run_proc(ctx, 8 if q else 120)
    ctx.log("proc: %s" % pagg)
    viol += [v for v in pviol if v["sig"] in ("proc-went-backwards", "proc-stale-at-quiescence", "reader-crashed", "reader-died", "reader-hung", "reader-process-died")]
    inconclusive = None
    if cov["idle_calls"] < 1000 or lng["exception_cases"] < 1 or lng["wrap_crossings"] < 1 or magg["idle_calls"] < 20:
        inconclusive = "monitors observed too little (idle calls %d, exception cases %d, wrap crossings %d, miri idle calls %d)" % (
            cov["idle_calls"], lng["exception_cases"], lng["wrap_crossings"], magg["idle_calls"])
    if lost or cov["shards_lost"] or mlost > (1 if q else 8):
        inconclusive = "some runs did not finish (sweeps %d, sched %d, miri %d)" % (lost, cov["shards_lost"], mlost)
    coverage = {
        "evaluations": cov["scenarios"] + lng["evaluations"] + magg["scenarios"],
        "distinct_nontrivial": cov["distinct_schedules"] + lng["distinct"],
        "rule": "sched: seeded scenarios under the token scheduler, distinct = distinct interleaving traces with an overlapped call or an observed publication change; "
                "c03long: sequential histories (start generation x number of publications slept through in {1,2,3,100,32765..32769,65533..65535,98301}), distinct = distinct (start generation, sleep) pairs; "
                "cold restarts: a reader attached before the header is damaged in place (6 kinds x 3 generations), the daemon restarted over it through the re-initialisation path, four publications, attached and fresh readers compared after each; sparse histories: consecutive publications differing in one field only, attached and fresh readers compared by full equality; oracles: per-reader indices never decrease; a call whose whole window had no update in flight returns the latest completed publication (exempt: slept through a positive multiple of 32767)",
        "samples": samples[:2] + lsamples[:2] + [{"miri": s} for s in msamples[:1]],
        "sched": cov,
        "long_histories": lng,
        "miri": dict(magg, processes_lost=mlost),
        "proc": pagg,
    }
    # threads and forked children in a C client (own contexts, handed-over contexts, inherited contexts)
    from . import client as _client
    _mv, _ms = _client.run_mt(ctx, "C03", 2.0 if ctx.quick() else 20.0)
    viol += _mv
    coverage["multi_threaded_c_client"] = _ms
    if any("inconclusive" in str(v) or str(v).startswith("exit ") for v in _ms.values()) and not inconclusive:
        inconclusive = "multi-threaded C client scenario did not complete: %s" % _ms
    finish(ctx, coverage, viol, inconclusive, assumptions=["publication records are keyed by index so order is a comparison of integers",
                                                          "Miri catch-up mode: the harness' S/P counters are SeqCst atomics (gives the reader happens-before from completed publications only)"])


def replay(ctx, path):
    shm.replay(ctx, path)

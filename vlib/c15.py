"""C15 — if any daemon thread dies, the whole daemon exits promptly."""
import json
import os

from . import sandbox
from .common import NPROC, Inconclusive, finish, VERIF

SITES = ["poller.start", "poller.loop", "poller.asof", "poller.send.pre", "poller.recv", "writer.start", "writer.new", "writer.recv", "writer.done"]
DEADLINE_MS = 15000


def run(ctx):
    q = ctx.quick()
    if not sandbox.available():
        raise Inconclusive("unshare -m with a private tmpfs on /run is not available")
    hooked = os.path.join(ctx.build_repo(["clock-bound-d"], release=False, features=["verif-hooks"]), "clockbound")
    relbin = os.path.join(ctx.build_repo(["clock-bound-d", "clock-bound-ffi"], release=True), "clockbound")
    plans = []
    hits = [1, 2] if q else [1, 2, 5]
    modes = ["absent", "answer"] if q else ["absent", "answer", "silent"]
    for site in SITES:
        for action in ("panic", "return"):
            for hit in hits:
                if site.endswith(".start") or site == "writer.new":
                    if hit > 1:
                        continue
                for mode in modes:
                    period = 4.5 if mode == "silent" else 1.2
                    plans.append({"binary": "hooked", "site": site, "hit": hit, "action": action, "chronyd": mode, "fire_within_s": 10 + hit * period})
    if q:
        # a few silent-chronyd plans in the quick tier as well (3 s blocking queries)
        for site, action in (("writer.recv", "panic"), ("poller.loop", "return"), ("writer.done", "return")):
            plans.append({"binary": "hooked", "site": site, "hit": 2, "action": action, "chronyd": "silent", "fire_within_s": 25})
    # late failures: the other worker has been through many iterations (and any state it accumulates,
    # e.g. a chronyd that has been unreachable for a while) when this one dies
    for site, action, mode in (("writer.recv", "panic", "absent"), ("writer.done", "return", "absent"), ("poller.recv", "panic", "absent"), ("writer.recv", "return", "answer")):
        plans.append({"binary": "hooked", "site": site, "hit": 7 if q else 9, "action": action, "chronyd": mode, "fire_within_s": 200})
    # a history first: chronyd synchronised, then unreachable well beyond the grace period (the writer has
    # been publishing the same Unknown record for a while), and only then a worker dies
    for site, action in (("poller.loop", "panic"), ("poller.recv", "return"), ("writer.recv", "panic"), ("writer.done", "return")):
        plans.append({"binary": "hooked", "site": site, "hit": 14 if site.startswith("poller") else 14, "action": action, "chronyd": "answer", "chronyd_script": [[2.6, "absent"]], "fire_within_s": 60})
    # chronyd answers promptly for a while, then persistently slower (80 ms, 400 ms per reply: a loaded or
    # remote chronyd), and only then the writer dies: a poller that has adapted to the quick replies must
    # still hear the abort
    for site, action in (("writer.recv", "panic"), ("writer.done", "return")):
        for slow in (("slow80",) if q else ("slow80", "slow400")):
            plans.append({"binary": "hooked", "site": site, "hit": 7, "action": action, "chronyd": "answer", "chronyd_script": [[2.2, slow]], "fire_within_s": 60, "optional_fault": True})
        # the same with the writer dying at a given time (6 s after its second wait for a message began)
        # rather than after a number of messages - it may not get any once chronyd is slow
        for slow in (("slow80",) if q else ("slow80", "slow400")):
            plans.append({"binary": "hooked", "site": "writer.recv", "hit": 2, "action": "panicafter6000", "chronyd": "answer", "chronyd_script": [[2.2, slow]], "fire_within_s": 60})
    # environment: somebody else (a second instance, a backup tool, a previous instance not yet gone) holds a
    # lock on the segment file for the whole run; a worker then dies
    for lock in ("flock", "fcntl"):
        for site, action in (("poller.loop", "panic"), ("poller.recv", "return"), ("poller.send.pre", "panic")):
            for pre in ("valid", "absent"):
                plans.append({"binary": "hooked", "site": site, "hit": 2, "action": action, "chronyd": "absent", "segment_lock": lock, "segment_before": pre, "fire_within_s": 15})
    if not q:
        # one worker stalls (alive) for 140 s while the other keeps working: nobody has died, nothing has to
        # happen; but if a worker does die of it (say, of a mailbox that filled up), the daemon must exit
        for site in ("writer.recv", "poller.loop"):
            plans.append({"binary": "hooked", "site": site, "hit": 2, "action": "stall140000", "chronyd": "absent", "natural": "worker-stalls-140s", "optional_fault": True, "fire_within_s": 175})
    # chronyd answers promptly, but with replies the client cannot use; then the writer dies
    for mode in ("badversion", "badseq", "short", "errorstatus"):
        for site, action, hit in (("writer.recv", "panic", 2), ("writer.done", "return", 3), ("writer.start", "panic", 1), ("writer.new", "return", 1)):
            plans.append({"binary": "hooked", "site": site, "hit": hit, "action": action, "chronyd": mode, "fire_within_s": 20})
    # no room for the segment (ENOSPC): the daemon may give up at once; if it waits for room and the poller dies meanwhile, it must still exit
    plans.append({"binary": "hooked", "site": "poller.loop", "hit": 3, "action": "panic", "chronyd": "absent", "natural": "segment-dir-full", "fire_within_s": 15})
    plans.append({"binary": "release", "natural": "segment-dir-full", "chronyd": "answer", "fire_within_s": 10})
    # natural faults, release binary as shipped
    plans.append({"binary": "release", "natural": "shm-is-directory", "chronyd": "absent", "fire_within_s": 10})
    plans.append({"binary": "release", "natural": "shm-is-directory", "chronyd": "answer", "fire_within_s": 10})
    plans.append({"binary": "release", "natural": "phc-garbage-at-start", "chronyd": "answer", "ref_id": 0x50484330, "fire_within_s": 15})
    plans.append({"binary": "release", "natural": "phc-garbage-later", "chronyd": "answer", "ref_id": 0x50484330, "fault_after_s": 2.5, "fire_within_s": 20})
    if not q:
        plans.append({"binary": "release", "natural": "phc-garbage-later", "chronyd": "answer", "ref_id": 0x50484330, "fault_after_s": 6.5, "fire_within_s": 25})
    # distribute: one namespace per plan (they are independent and mostly waiting)
    cmds, outs = [], []
    for i, pl in enumerate(plans):
        pf = os.path.join(ctx.tmp, "plan-%d.json" % i)
        json.dump([pl], open(pf, "w"))
        o = os.path.join(ctx.tmp, "c15-%d.json" % i)
        outs.append(o)
        b = hooked if pl["binary"] == "hooked" else relbin
        cmds.append(sandbox.wrap(["python3", os.path.join(VERIF, "vlib", "nsrun.py"), "c15", b, o, pf]))
    res = ctx.run_parallel(cmds, 320, jobs=NPROC * 3)
    viol, samples = [], []
    table = {}
    lat = []
    not_fired = 0
    lost = 0
    for (rc, text), o, pl in zip(res, outs, plans):
        if rc != 0 or not os.path.exists(o):
            lost += 1
            ctx.log("c15 run lost rc=%s %s" % (rc, text[-300:]))
            continue
        ob = json.load(open(o))[0]
        name = ob.get("site") or ob.get("natural")
        key = "%s|%s|hit%s|chronyd-%s%s%s" % (name, ob.get("action", "natural"), ob.get("hit", "-"), ob["chronyd"], ("-then-" + "-".join(m for _t, m in pl["chronyd_script"])) if pl.get("chronyd_script") else "",
                                              ("|segment-%s-%s-by-another-process" % (pl.get("segment_before"), pl["segment_lock"])) if pl.get("segment_lock") else "")
        if not ob["fired"]:
            if pl.get("optional_fault"):
                table[key] = "no worker died of it (none has to)"
                continue
            not_fired += 1
            table[key] = "fault never fired"
            continue
        if ob["latency_ms"] is None or ob["latency_ms"] > DEADLINE_MS:
            rp = os.path.join(ctx.replay_dir, "C15-%s.json" % key.replace("|", "_"))
            with open(rp, "w") as f:
                json.dump(ob, f, indent=1)
            viol.append({"sig": "daemon-lingers", "detail": "%s: the daemon was %s after the worker failure (deadline %d ms); log: %s" % (
                key, ("still alive 40 s" if ob["latency_ms"] is None else "alive for %.0f ms" % ob["latency_ms"]), DEADLINE_MS, ob["log_tail"][-3:]), "replay": rp})
            table[key] = "LINGERS"
        else:
            lat.append(ob["latency_ms"])
            table[key] = ob["latency_ms"]
        if len(samples) < 4 and (ob.get("natural") or ob.get("hit") == 2):
            samples.append({"plan": key, "latency_ms": ob["latency_ms"], "exit_code": ob["exit_code"], "log_tail": ob["log_tail"][-2:]})
    inconclusive = None
    if lost or not_fired:
        inconclusive = "%d runs lost, %d faults never fired: %s" % (lost, not_fired, [k for k, v in table.items() if v == "fault never fired"][:5])
    lat.sort()
    coverage = {
        "evaluations": len(plans),
        "distinct_nontrivial": len([v for v in table.values() if v != "fault never fired"]),
        "rule": "fault enumeration: the hooked `clockbound` binary runs in its own mount namespace with CLOCKBOUND_VERIF_FAILPOINT=<site>:<hit>:<action> for every failpoint (5 in the poller loop and start-up, 4 in the writer loop and start-up) x {panic, return} x hit in %s x chronyd in %s (a stand-in speaking the chrony protocol on /run/chrony/chronyd.sock); "
                "plus late failures (iteration 7/9) and failures at iteration 14 after chronyd answered for 2.6 s and then vanished; plus natural faults on the release binary as shipped: the segment path is a directory, the PHC error-bound file is unparsable at start / turns to garbage after 2.5 s (6.5 s) while it is chronyd's reference; "
                "latency = process exit time - time the fault fired (both CLOCK_MONOTONIC); violation if the process is alive %d ms after the fault (40 s watchdog then kills it); distinct_nontrivial = plans whose fault actually fired" % (hits, modes, DEADLINE_MS),
        "samples": samples,
        "latency_ms": {"min": lat[0] if lat else None, "p50": lat[len(lat) // 2] if lat else None, "max": lat[-1] if lat else None},
        "table": table,
        "exhaustive": True,
        "exhaustive_over": "(failpoint site x action) of both worker loops",
    }
    finish(ctx, coverage, viol, inconclusive, assumptions=["wall-clock verdict by the nature of the property: 15 s is 3x the worst legitimate path (3 x 1 s chrony timeouts + 1 s mailbox wait + joins)"])


def replay(ctx, path):
    print(open(path).read())
    raise SystemExit(2)

"""C09 — no trust is advertised before a first measurement exists."""
from . import c08


def run(ctx):
    c08.run(ctx, "C09")


replay = c08.replay

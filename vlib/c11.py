"""C11 — generation field obeys the documented protocol in every reachable state."""
from . import shm
from .common import NPROC, finish


def run(ctx):
    q = ctx.quick()
    b = shm.shmsim(ctx)
    parts = shm.run_single(ctx, b, ["c11sweep", "--chain", "70000" if q else "400000"], NPROC, 1800)
    sw = {"evaluations": 0, "republished": 0, "observations": 0, "chain_steps": 0, "wrap_crossings": 0}
    classes = {}
    viol, samples = [], []
    lost = 0
    viol_crash = shm.crash_violations(parts)
    for p in parts:
        if p is None:
            lost += 1
            continue
        if p.get("_crashed"):
            continue
        for k in sw:
            sw[k] += p.get(k, 0)
        for k, v in p.get("classes", {}).items():
            classes[k] = classes.get(k, 0) + v
        viol += p["violations"]
        samples += p["samples"][:1]
    viol += viol_crash
    ctx.log("c11sweep: %s classes %s" % (sw, classes))
    cov, sviol, ssamples = shm.run_sched(ctx, b, "C11", 12000 if q else 400000)
    ctx.log("sched: %d scenarios, %d completed updates observed, stops %d" % (cov["scenarios"], cov["c11_observations"], cov["stops"]))
    viol += sviol
    # "odd for the whole duration of an update" presupposes one writer: the whole daemon, stopped by signals
    # or by the death of a worker thread, must never have two writers of the segment alive at once
    wviol, sig_cov = shm.single_writer_runs(ctx)
    viol += wviol
    ctx.log("whole daemon under signals / worker deaths, single-writer monitor: %s" % sig_cov)
    inconclusive = None
    if sw["evaluations"] != 65536 or lost or cov["shards_lost"]:
        inconclusive = "sweep incomplete (%d of 65536 start values, %d shards lost)" % (sw["evaluations"], lost + cov["shards_lost"])
    elif sw["wrap_crossings"] < 1 or cov["c11_observations"] < 1000 or cov["stops"] < 100:
        inconclusive = "monitors observed too little"
    coverage = {
        "evaluations": sw["evaluations"] + sw["chain_steps"] + cov["scenarios"],
        "distinct_nontrivial": sw["evaluations"],
        "rule": "sweep: every one of the 65536 values the generation can hold at the start of an update is poked into a mapped valid segment and one real write() is run, an independent observer (pread of the file) sampling the generation at every hook point of the update: "
                "odd while any record word is written, never 0 on the way, even/non-zero/different afterwards, record intact; then the same start value once more with the very same record republished; distinct_nontrivial = start values covered (all are distinct). "
                "chains: consecutive updates across the wrap; sched: histories with writer stops at every point and restarts, same observer (induction step: every state the next update can start from is in the sweep)",
        "samples": samples[:3] + ssamples[:1],
        "exhaustive": True,
        "exhaustive_over": "start value of the generation (all 65536)",
        "sweep": dict(sw, classes=classes),
        "sched": cov,
        "whole_daemon_single_writer_monitor": sig_cov,
    }
    finish(ctx, coverage, viol, inconclusive, assumptions=["a third-party reader is modelled by pread() of the generation bytes of the backing file at each writer hook point"])


def replay(ctx, path):
    shm.replay(ctx, path)

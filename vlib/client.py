"""Client-side checks (C05 C06 C14 C17): Rust sweeps under a virtual clock, the C driver against
libclockbound under ASan+UBSan, and an independent exact oracle in Python."""
import os
import subprocess
from fractions import Fraction

from .common import NPROC, Inconclusive

NS = 10 ** 9


def build_clientsim(ctx, release=True):
    return ctx.build_harness("clientsim", ["clientsim"], None, release=release)["clientsim"]


def build_cdriver(ctx, sanitize=True, shared=False):
    """Compile harness/cdriver/ffi_driver.c against clockbound.h + libclockbound from the repo tree."""
    # the library as a user who installs only the C library gets it: built on its own (cargo features
    # are not unified with the daemon's), in a target directory of its own
    libdir = ctx.build_repo(["clock-bound-ffi"], release=True, target="repo-ffi-alone-rel")
    out = os.path.join(ctx.bdir, "ffi_driver_%s%s" % ("san" if sanitize else "plain", "_so" if shared else ""))
    src = os.path.join(ctx.ws, "cdriver", "ffi_driver.c")
    ctx.ensure_ws()
    cmd = ["clang", "-O1", "-g", "-I" + os.path.join(ctx.repo, "clock-bound-ffi", "include"), src]
    if sanitize:
        cmd += ["-fsanitize=address,undefined", "-fno-sanitize-recover=all"]
    if shared:
        cmd += ["-L" + libdir, "-lclockbound", "-Wl,-rpath," + libdir]
    else:
        cmd += [os.path.join(libdir, "libclockbound.a")]
    cmd += ["-lpthread", "-ldl", "-lm", "-o", out]
    p = subprocess.run(cmd, stdout=subprocess.PIPE, stderr=subprocess.STDOUT, text=True)
    if p.returncode != 0:
        print(p.stdout[-3000:])
        raise Inconclusive("C driver does not compile against clockbound.h / libclockbound")
    return out


def build_mt_driver(ctx):
    """harness/cdriver/mt_driver.c (threads, fork) against the static library, no sanitizer."""
    libdir = ctx.build_repo(["clock-bound-ffi"], release=True, target="repo-ffi-alone-rel")
    out = os.path.join(ctx.bdir, "mt_driver")
    ctx.ensure_ws()
    cmd = ["clang", "-O1", "-g", "-pthread", "-I" + os.path.join(ctx.repo, "clock-bound-ffi", "include"), os.path.join(ctx.ws, "cdriver", "mt_driver.c"),
           os.path.join(libdir, "libclockbound.a"), "-lpthread", "-ldl", "-lm", "-o", out]
    p = subprocess.run(cmd, stdout=subprocess.PIPE, stderr=subprocess.STDOUT, text=True)
    if p.returncode != 0:
        print(p.stdout[-3000:])
        raise Inconclusive("multi-threaded C driver does not compile against clockbound.h / libclockbound")
    return out


def probe_shared_client(ctx, seconds=2):
    """harness/sharedclient uses ONE ClockBoundClient from four threads through an Arc, without a lock.
    The unchanged tree does not allow that (the compiler refuses: the reader is neither Send nor Sync and
    now() takes &mut self); the probe records the refusal. A tree on which it compiles is run: every
    answer must stem from one of the two published records. Returns (violations, info)."""
    import json
    ctx.ensure_ws()
    p = ctx.cargo(["build", "--offline", "-p", "sharedclient", "--release"], "h-sharedclient-rel")
    if p.returncode != 0:
        codes = sorted(set(c for c in ("E0277", "E0596", "E0599", "E0308") if ("error[%s]" % c) in p.stdout))
        if "could not compile `sharedclient`" in p.stdout and codes:
            return [], {"one_client_shared_by_threads": "refused by the compiler (%s): unsynchronised sharing of a client is not expressible against this tree" % ", ".join(codes)}
        return [], {"one_client_shared_by_threads": "probe did not build for another reason (not judged): %s" % p.stdout[-300:]}
    binary = os.path.join(ctx.bdir, "h-sharedclient-rel", "release", "sharedclient")
    out = os.path.join(ctx.tmp, "sharedclient.json")
    try:
        r = subprocess.run([binary, "--seconds", str(seconds), "--out", out], stdout=subprocess.PIPE, stderr=subprocess.PIPE, text=True, timeout=120)
    except subprocess.TimeoutExpired:
        return [], {"one_client_shared_by_threads": "compiles; run did not finish (not judged)"}
    if r.returncode < 0 and -r.returncode in (4, 6, 7, 8, 11):
        return [{"sig": "shared-client-crash", "detail": "one client shared by four threads (the tree allows it: the probe compiles): the process was killed by signal %d" % -r.returncode, "replay": ""}], {"one_client_shared_by_threads": "compiles"}
    if r.returncode != 0 or not os.path.exists(out):
        return [], {"one_client_shared_by_threads": "compiles; run failed (not judged): %s" % r.stderr[-200:]}
    j = json.load(open(out))
    viol = [{"sig": "shared-client-answer-from-no-single-record", "detail": "one client shared by four threads without a lock (this tree allows it: the probe compiles), the daemon alternating two records: " + v, "replay": ""} for v in j["violations"]]
    return viol, {"one_client_shared_by_threads": "compiles on this tree", "calls": j["calls"], "publications": j["publications"]}


MT_SCENARIOS = {"C03": ["handover"], "C02": ["threads"], "C14": ["threads"], "C16": ["threads"], "C18": ["fork"], "C17": ["nullerr", "handover", "threads"]}


def run_mt(ctx, prop, seconds=2.0):
    """Scenarios of the multi-threaded C client relevant to `prop`. Returns (violations, stats)."""
    import shutil
    import signal as _signal
    binary = build_mt_driver(ctx)
    viol, stats = [], {}
    for sc in MT_SCENARIOS.get(prop, []):
        d = "/dev/shm/cbverif-mt-%d-%s" % (os.getpid(), sc)
        os.makedirs(d, exist_ok=True)
        try:
            cmd = [binary, sc, d] + ([str(seconds)] if sc == "threads" else [])
            try:
                p = subprocess.run(cmd, stdout=subprocess.PIPE, stderr=subprocess.PIPE, text=True, timeout=300)
            except subprocess.TimeoutExpired:
                stats[sc] = "did not finish (inconclusive)"
                continue
            for ln in p.stdout.splitlines():
                if ln.startswith("VIOLATION-MT "):
                    _, pr, sig, text = ln.split(" ", 3)
                    # the error a C call reports is part of the C interface (C17) as much as of the call's behaviour (C14)
                    if pr == prop or (prop == "C17" and pr == "C14" and sig == "wrong-error-kind"):
                        viol.append({"sig": "c-client-" + sig, "detail": "[multi-threaded C client, scenario %s] %s" % (sc, text), "replay": ""})
                elif ln.startswith("MT "):
                    stats[sc] = ln[3:]
            if p.returncode < 0:
                try:
                    name = _signal.Signals(-p.returncode).name
                except ValueError:
                    name = str(-p.returncode)
                if -p.returncode in (4, 6, 7, 8, 11):
                    viol.append({"sig": "c-client-killed-by-" + name, "detail": "[multi-threaded C client, scenario %s] the process was killed by %s: %s" % (sc, name, (p.stdout + p.stderr)[-300:]), "replay": ""})
                else:
                    stats[sc] = "killed by %s (inconclusive)" % name
            elif p.returncode != 0:
                stats[sc] = "exit %d: %s" % (p.returncode, p.stderr[-200:])
        finally:
            shutil.rmtree(d, ignore_errors=True)
    return viol, stats


def sweep(ctx, binary, prop, count, seed_salt=0, timeout=1800):
    parts = ctx.run_shards(binary, ["sweep", "--prop", prop, "--seed", str(ctx.seed * 1000 + seed_salt), "--count", str(count)], NPROC, timeout)
    agg = {"evaluations": 0, "distinct": 0, "chain_checks": 0, "virtual_clock_reads": 0}
    blurs = set()
    cells, outcomes = {}, {}
    viol, samples = [], []
    lost = 0
    from .shm import crash_violations
    viol += crash_violations(parts)
    for p in parts:
        if p is None:
            lost += 1
            continue
        if p.get("_crashed"):
            continue
        for k in ("evaluations", "distinct", "chain_checks", "virtual_clock_reads"):
            agg[k] += p.get(k, 0)
        for k, v in p["cells"].items():
            cells[k] = cells.get(k, 0) + v
        for k, v in p["outcomes"].items():
            outcomes[k] = outcomes.get(k, 0) + v
        viol += p["violations"]
        samples += p["samples"][:1]
        blurs.add(p.get("blur_ns"))
        h = p.get("hostile", {})
        hs = agg.setdefault("hostile_caller_state", {"errno_values": 0, "shards_with_signals": 0, "signals_delivered": 0, "shards_with_unwritable_stderr": 0})
        hs["errno_values"] = max(hs["errno_values"], h.get("errno_values", 0))
        hs["shards_with_signals"] += bool(h.get("signals"))
        hs["signals_delivered"] += h.get("signals_delivered", 0)
        hs["shards_with_unwritable_stderr"] += bool(h.get("stderr_unwritable"))
        agg["distinct_capped"] = agg.get("distinct_capped", False) or p.get("distinct_capped", False)
    agg["blur_ns"] = sorted(b for b in blurs if b is not None)
    agg["cells"] = cells
    agg["outcomes"] = outcomes
    agg["shards_lost"] = lost
    return agg, viol, samples


# ---------------------------------------------------------------- independent oracle (Python, exact)
def parse_vec(line):
    f = [int(x) for x in line.split()]
    return {"as_of": f[0] * NS + f[1], "void_after": f[2] * NS + f[3], "bound": f[4], "drift": f[5], "status": f[6],
            "real": f[7] * NS + f[8], "mono": f[9] * NS + f[10]}


def py_oracle(v, out, blur=1000):
    """Returns list of (property, sig, text). Written from the property statements, not from the code."""
    bad = []
    tok = out.split()
    if tok[0] == "PANIC":
        return [("C14", "panic", out)]
    if tok[0] == "CANARY" or tok[0] == "CLOCKORDER":
        return [("C17", tok[0].lower(), out)]
    if v["drift"] >= NS:
        if not (tok[0] == "ERR" and tok[1] == "SegmentMalformed"):
            bad.append(("C14", "drift-not-rejected", "drift %d: %s" % (v["drift"], out)))
        return bad
    if tok[0] == "ERR":
        if tok[1] == "CausalityBreach":
            if v["mono"] > v["as_of"] - blur:
                bad.append(("C14", "spurious-causality-error", out))
        else:
            bad.append(("C14", "unexpected-error-" + tok[1], out))
        return bad
    if v["mono"] < v["as_of"] - blur:
        bad.append(("C14", "causality-not-detected", out))
        return bad
    e = int(tok[1]) * NS + int(tok[2])
    l = int(tok[3]) * NS + int(tok[4])
    st = int(tok[5])
    if e > l:
        bad.append(("C05", "earliest-after-latest", out))
    if e + l != 2 * v["real"]:
        bad.append(("C05", "not-centred", out))
    age = max(0, v["mono"] - v["as_of"])
    exact = Fraction(v["drift"] * age, NS)
    eps = int(exact) >> 50
    if int(exact) >= 1 << 50:
        eps += 1
    h = Fraction(l - e, 2)
    if h < v["bound"] + (exact.numerator // exact.denominator) - 1 - eps:
        bad.append(("C05", "too-narrow", "half-width %s < bound %d + %s" % (h, v["bound"], exact)))
    if h > v["bound"] + -((-exact.numerator) // exact.denominator) + eps:
        bad.append(("C05", "too-wide", "half-width %s > bound %d + %s" % (h, v["bound"], exact)))
    if v["void_after"] >= v["as_of"] + 5 * NS:
        if v["status"] == 0:
            exp = 0
        elif v["mono"] < v["as_of"] + 5 * NS:
            exp = v["status"]
        elif v["mono"] < v["void_after"]:
            exp = 2
        else:
            exp = 0
        edge = v["status"] != 0 and v["mono"] == v["void_after"] and v["mono"] >= v["as_of"] + 5 * NS and st in (0, 2)
        if st != exp and not edge:
            bad.append(("C06", "status-mismatch", "reported %d expected %d: %s" % (st, exp, out)))
    return bad


def c_parity(ctx, clientsim, cdriver, prop, count, props_for_oracle, blur=1000):
    """Rust client and C library over the same vectors; the Python oracle judges both.
    Returns (n_vectors, violations, info)."""
    dump = os.path.join(ctx.tmp, "vec-%s.txt" % prop)
    p = subprocess.run([clientsim, "sweep", "--prop", prop, "--seed", str(ctx.seed * 77 + 5), "--count", str(count), "--dump", dump,
                        "--out", os.path.join(ctx.tmp, "vec-%s.json" % prop), "--replays", ctx.replay_dir], stdout=subprocess.PIPE, stderr=subprocess.STDOUT, text=True, timeout=900)
    if p.returncode != 0:
        raise Inconclusive("clientsim dump failed: " + p.stdout[-500:])
    vin = os.path.join(ctx.tmp, "vin-%s.txt" % prop)
    lines = open(dump).read().splitlines()
    with open(vin, "w") as f:
        for ln in lines:
            f.write(ln.split("|")[0].strip() + "\n")
    shm = "/dev/shm/cbverif-cdrv-%d.shm" % os.getpid()
    env = dict(ctx.env)
    env["ASAN_OPTIONS"] = "abort_on_error=0:halt_on_error=1:detect_leaks=1"
    env["UBSAN_OPTIONS"] = "halt_on_error=1:print_stacktrace=1"
    cp = subprocess.run([cdriver, "vectors", vin, shm], stdout=subprocess.PIPE, stderr=subprocess.PIPE, text=True, timeout=900, env=env)
    try:
        os.unlink(shm)
    except OSError:
        pass
    viol = []
    couts = cp.stdout.splitlines()
    if cp.returncode != 0 or "ERROR: AddressSanitizer" in cp.stderr or "runtime error:" in cp.stderr or "LeakSanitizer" in cp.stderr:
        rp = os.path.join(ctx.replay_dir, "%s-cdriver-%d.txt" % (ctx.prop, ctx.seed))
        with open(rp, "w") as f:
            f.write(cp.stdout[-3000:] + "\n" + cp.stderr[-6000:])
        viol.append({"sig": "c-driver-sanitizer-or-crash", "detail": "C driver exited %d: %s" % (cp.returncode, (cp.stderr or cp.stdout)[-400:]), "replay": rp})
        return len(lines), viol, {"c_answers": len(couts)}
    couts = [c for c in couts if not c.startswith("CLOCKORDER")] if False else couts
    # CLOCKORDER lines follow their OK line; fold them out but keep as findings.
    folded = []
    for c in couts:
        if c.startswith("CLOCKORDER") or c.startswith("CANARY"):
            viol.append({"sig": c.split()[0].lower(), "detail": c, "replay": ""})
        else:
            folded.append(c)
    if len(folded) != len(lines):
        raise Inconclusive("C driver answered %d of %d vectors" % (len(folded), len(lines)))
    mismatches = 0
    judged = 0
    for ln, c in zip(lines, folded):
        vtxt, rust = [x.strip() for x in ln.split("|")]
        if rust != c:
            mismatches += 1
            if len(viol) < 10:
                viol.append({"sig": "rust-c-disagree", "detail": "vector [%s]: Rust client -> %s ; C library -> %s" % (vtxt, rust, c), "replay": ""})
        v = parse_vec(vtxt)
        for who, o in (("rust", rust), ("c", c)):
            for pr, sig, text in py_oracle(v, o, blur):
                if pr in props_for_oracle and len(viol) < 10:
                    viol.append({"sig": "py-" + sig, "detail": "[python oracle, %s answer] %s [vector %s]" % (who, text, vtxt), "replay": ""})
        judged += 1
    return len(lines), viol, {"c_answers": len(folded), "rust_c_mismatches": mismatches, "python_oracle_judged": judged * 2}

"""C01 — true time lies inside every trusted interval (end-to-end containment)."""
from . import daemon
from .common import finish

SUM = ("evaluations", "distinct", "polls", "restarts", "reboots", "suspends", "polls_with_short_phc_reads", "answers_without_a_system_clock_read", "trusted_in_sync_phase", "answers_in_sync_phase", "order_checks", "gap_checks", "msg_checks")
DICTS = ("answers_by_status", "outcomes_by_kind", "adversarial_instants", "client_errors")


def run_world(ctx, mode, count, extra=None):
    b = daemon.build(ctx)
    parts = daemon.run_mode(ctx, b, mode, count, extra=extra)
    agg, viol, samples, incon = daemon.merge(parts, sum_keys=SUM, dict_keys=DICTS)
    margins = [int(p["min_margin_ns"]) for p in parts if p and p.get("min_margin_ns") is not None]
    agg["min_margin_ns"] = min(margins) if margins else None
    return agg, viol, samples, incon


def run(ctx):
    q = ctx.quick()
    agg, viol, samples, incon = run_world(ctx, "c01", 20000 if q else 600000, extra=["--tick", "4000000"])
    trusted = agg["answers_by_status"].get("1", 0) + agg["answers_by_status"].get("2", 0)
    ctx.log("c01: %d histories, %d polls, %d client answers (%d trusted), min containment margin %s ns, %d restarts" % (
        agg["evaluations"], agg["polls"], sum(agg["answers_by_status"].values()), trusted, agg["min_margin_ns"], agg["restarts"]))
    inconclusive = incon
    if agg["shards_lost"]:
        inconclusive = "%d shards did not finish" % agg["shards_lost"]
    elif agg["answers_in_sync_phase"] == 0 or agg["trusted_in_sync_phase"] < 0.3 * agg["answers_in_sync_phase"]:
        inconclusive = "fewer than 30%% of answers in synchronised phases were trusted (%d of %d)" % (agg["trusted_in_sync_phase"], agg["answers_in_sync_phase"])
    elif agg["restarts"] < 100 or trusted < 10000:
        inconclusive = "monitors observed too little"
    elif agg.get("answers_without_a_system_clock_read", 0) > 0:
        inconclusive = "%d trusted answers were given without any read of a realtime clock the harness recognises: containment could not be judged for them" % agg["answers_without_a_system_clock_read"]
    coverage = {
        "evaluations": agg["evaluations"],
        "distinct_nontrivial": agg["distinct"],
        "rule": "each evaluation is one history of 20..200 polls in a virtual-time world (exact integer arithmetic): true time, a system clock whose error drifts at a piecewise-constant rate within the configured maximum (1/50/500 ppm; adversarially at the maximum in the direction of the error), initial error up to 2 s, uptime at daemon start in {3, 100, 999, 1e6} s, "
                "a chronyd whose wire values satisfy |error| <= |offset| + dispersion + delay/2 (+PHC share) exactly on the decoded values (tight half of the time, either offset sign), answering late, unsynchronised, stale, with bad leap, future reference time, or not at all (outages to 1200 s), PHC added/unreadable, daemon restarts (clean, or killed inside an update), machine reboots over a surviving segment file (monotonic clock back near zero, wall clock seconds off, clients return after the new daemon's first publication); "
                "it drives, in lock-step, the real poller loop (one real iteration per poll), the real ShmUpdater/FSM on its own thread, the real ShmWriter on a tmpfs file and real ClockBoundClients (one attached, fresh ones) queried at random and adversarial instants (right after a publication, as_of+5 s -1/0 ns, void_after -1/0 ns, daemon down, first instant after a restart), a third of histories with a 4 ms coarse-clock tick; "
                "oracle: for every answer with status Synchronized/FreeRunning, earliest - tol <= true time at the realtime read <= latest + tol, tol = 2 ns (+ drift x tick); distinct_nontrivial = distinct history seeds (every history contains trusted answers)",
        "samples": samples[:2],
        "polls": agg["polls"],
        "answers_by_status": agg["answers_by_status"],
        "min_margin_ns": agg["min_margin_ns"],
        "outcomes_by_kind": agg["outcomes_by_kind"],
        "adversarial_instants": agg["adversarial_instants"],
        "restarts": agg["restarts"],
        "machine_reboots_with_surviving_segment": agg.get("reboots", 0),
        "machine_suspends": agg.get("suspends", 0),
        "polls_with_short_phc_reads": agg.get("polls_with_short_phc_reads", 0),
        "trusted_in_sync_phase": agg["trusted_in_sync_phase"],
        "answers_in_sync_phase": agg["answers_in_sync_phase"],
        "client_errors": agg["client_errors"],
    }
    finish(ctx, coverage, viol, inconclusive, assumptions=[
        "drift assumption: no clock steps; the monotonic clock is ideal (second-order drift-on-drift ignored)",
        "mock chronyd at the ChronyOperations boundary (the real UDS path is exercised by C13); grace flag computed as the real poller would"])


def replay(ctx, path):
    import json
    import subprocess
    j = json.load(open(path))
    hs = j.get("case", {}).get("history_seed")
    if not hs:
        print(open(path).read())
        raise SystemExit(2)
    mode = {"C01": "c01", "C12": "c12", "C13": "c13"}[ctx.prop]
    b = daemon.build(ctx)
    p = subprocess.run([b, mode, "--history", hs, "--count", "1", "--tick", "4000000", "--replays", ctx.tmp], stdout=subprocess.PIPE, text=True, timeout=600)
    r = json.loads(p.stdout)
    for v in r["violations"][:5]:
        print("  violation: sig=%s %s" % (v["sig"], v["detail"]))
    if r["violations"]:
        print("VIOLATION property=%s replay=%s" % (ctx.prop, path))
        raise SystemExit(1)
    print("history %s: no violation on this tree" % hs)
    raise SystemExit(0)

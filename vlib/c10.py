"""C10 — only a fresh, well-formed chrony report counts as synchronised."""
from . import daemon
from .common import finish


def run(ctx):
    q = ctx.quick()
    b = daemon.build(ctx)
    parts = daemon.run_mode(ctx, b, "c10", 20000 if q else 2000000)
    agg, viol, samples, incon = daemon.merge(parts, sum_keys=("evaluations", "slivers"))
    work = max([p["work_items"] for p in parts if p] or [0])
    replayed = sum(p.get("replayed_reports", 0) for p in parts if p)
    ctx.log("c10: %d of %d work items, %d cells, %d in the truncation sliver" % (agg["evaluations"], work, len(agg["cells"]), agg["slivers"]))
    inconclusive = incon
    leaps = sum(v for k, v in agg["cells"].items() if k.startswith("all-leaps|"))
    if agg["shards_lost"] or agg["evaluations"] != work:
        inconclusive = "incomplete: %d of %d work items" % (agg["evaluations"], work)
    elif leaps != 65536 or agg["cells"].get("state-setup-differs", 0) > 0:
        inconclusive = "leap values covered %d of 65536; FSM set-up failures %d" % (leaps, agg["cells"].get("state-setup-differs", 0))
    # The poller's side: what chronyd said is what the writer classifies. The real poller over a real socket,
    # every reply different from its neighbours in every field that matters (leap, reference time, interval -
    # also 0 right after a non-zero one -, offset, delay, dispersion); the message handed to the writer must
    # carry the reply of its own poll unchanged.
    from . import c13real
    real = c13real.run_real(ctx)
    viol += [v for v in real["violations"] if v["sig"] == "report-altered-by-the-poller"]
    compared = real.get("kinds", {}).get("reports-compared-field-by-field", 0)
    ctx.log("real poller: %s scripts, %s reports compared field by field with chronyd's reply" % (real.get("evaluations"), compared))
    if real.get("inconclusive") and not inconclusive:
        inconclusive = real["inconclusive"]
    elif compared < 100 and not inconclusive:
        inconclusive = "the real-poller layer compared only %d reports" % compared
    coverage = {
        "evaluations": agg["evaluations"],
        "distinct_nontrivial": work,
        "rule": "each evaluation: a daemon with a measurement on record is brought to one FSM state (Unknown / Synchronized / FreeRunning) by real messages, then one report (leap status, reference-time age under a virtual SystemTime, update interval) is processed by the real pipeline and the published status read from the sink; "
                "enumerated: all 65536 leap-status values (fresh), every (leap in {0,1,2,3,4,7,255,65535}) x (9 intervals) x (ages -1 s, -1 ns, 0, 1 ns, floor-threshold -1/0/+1 ns, exact-threshold -1/0/+1 ns, +1 s, 1 year) x (3 FSM states); plus random reports; plus the bit-identical report processed a second time after virtual time has moved on (fresh then stale, fresh then still fresh); "
                "plus the real poller loop over a real socket against a scripted chronyd whose replies differ per poll in every classified field: the report handed to the writer equals the reply of its own poll; oracle: the statement's table in exact integer arithmetic on the decoded interval; in the sliver floor(8*interval) s < age <= 8*interval either answer is accepted and counted; distinct_nontrivial = enumerated + random work items (all distinct by construction)",
        "samples": samples[:3],
        "exhaustive": True,
        "exhaustive_over": "leap status (all 65536 values)",
        "cells": agg["cells"],
        "sliver_cases_accepted": agg["slivers"],
        "real_poller_reports_compared_with_the_wire": compared,
        "real_poller_scripts": real.get("evaluations"),
    }
    finish(ctx, coverage, viol, inconclusive, assumptions=["ages are exact because SystemTime::now() of the writer thread reads the interposed CLOCK_REALTIME"])


def replay(ctx, path):
    print(open(path).read())
    print("re-run ./check C10 quick: the enumeration is deterministic")
    raise SystemExit(2)

"""C08 — published record tracks the chrony history: freeze on loss, advance on sync."""
from . import daemon
from .common import finish


def run(ctx, prop="C08"):
    q = ctx.quick()
    b = daemon.build(ctx)
    mode = prop.lower()
    if prop == "C08":
        parts = daemon.run_mode(ctx, b, mode, 3000 if q else 150000, extra=["--enumlen", "3" if q else "4"])
    else:
        parts = daemon.run_mode(ctx, b, mode, 2000 if q else 100000, extra=["--enumlen", "3" if q else "5"])
    agg, viol, samples, incon = daemon.merge(parts)
    ctx.log("%s: %d sequences (%d distinct), stats %s" % (mode, agg["evaluations"], agg["distinct"], {k: v for k, v in agg["stats"].items() if not k.startswith("outcome-")}))
    inconclusive = incon
    if agg["shards_lost"]:
        inconclusive = "%d shards did not finish" % agg["shards_lost"]
    if prop == "C08":
        need = ["outcome-" + k for k in ("sync", "unsync", "stale", "bad-leap", "future", "no-reply-grace", "no-reply", "phc-fail-grace", "phc-fail")]
        if any(agg["stats"].get(k, 0) < 100 for k in need):
            inconclusive = "some outcome kinds were exercised fewer than 100 times"
        rule = ("each evaluation: one sequence of poll outcomes (synchronised with dyadic offset of either sign / dispersion / delay / PHC bound, unsynchronised, stale, unusable leap, future reference time, no reply within/beyond grace, PHC failure within/beyond grace) sent as real Messages through the real channel to the real process_messages/ShmUpdater/FSM over a tee sink + real ShmWriter, "
                "one message at a time; after each: exactly one publication, generation +2, record == 20-line reference model (last synchronised (bound, as_of), void_after = (as_of.sec+1000, 0), configured drift, status = class of latest outcome once a synchronised report was seen), read back through a fresh and an attached ShmReader; "
                "enumerated: all sequences up to length 3 (quick) / 4 (thorough) over the 9 outcome kinds; random sequences up to length 60, drifts in {1, 1000, 50000, 500000, 999999999} ppb, with and without a previous incarnation's segment; distinct_nontrivial = distinct (sequence, drift, restart) triples")
    else:
        if agg["stats"].get("records-before-first-sync", 0) < 1000 or agg["stats"].get("client-evaluations", 0) < 1000:
            inconclusive = "monitors observed too little: %s" % agg["stats"]
        rule = ("each evaluation: a daemon incarnation (fresh file, or restarted over a segment holding a previous incarnation's Synchronized record) fed a prefix free of synchronised reports: all sequences up to length 3 (quick) / 5 (thorough) over the 8 non-synchronised outcome kinds, then random ones followed by a synchronised report; "
                "after each message the published record must say Unknown, and a real ClockBoundClient evaluated at virtual uptimes {1 s, 4.9 s, 5 s, 60 s, 999 s, 1000 s + 1 ns, 1e6 s} must report Unknown; distinct_nontrivial = distinct (sequence, drift, restart) triples")
    life_info = None
    if prop == "C08":
        # long lives of the daemon's own writer-thread entry point (nothing of its start-up bypassed)
        lviol, life_info = daemon.run_real_lives(ctx, 2 if q else 16)
        for v in lviol:
            v = dict(v)
            v["sig"] = "long-life:" + v["sig"]
            viol.append(v)
        if life_info.get("inconclusive") and not inconclusive:
            inconclusive = life_info["inconclusive"]
        ctx.log("long lives of shm_writer::run(): %s" % life_info)
    if prop == "C08":
        # the poller's side of "tracks the chrony history": a synchronised report that chronyd gave must reach the writer
        from . import c13real
        real = c13real.run_real(ctx)
        for v in real["violations"]:
            if v["sig"] == "real-poller-message-class" and "expected ClockErrorBoundData" in v["detail"]:
                viol.append({"sig": "synchronised-report-not-passed-on", "detail": v["detail"], "replay": v.get("replay", "")})
            elif v["sig"] == "real-poller-message-class" and "message ClockErrorBoundData expected" in v["detail"]:
                # the other direction: a poll without a usable measurement (chronyd silent, PHC unreadable) handed on as one - the record advances instead of freezing
                viol.append({"sig": "measurement-passed-on-for-a-failed-poll", "detail": v["detail"], "replay": v.get("replay", "")})
            elif v["sig"] == "report-altered-by-the-poller":
                viol.append({"sig": "report-altered-by-the-poller", "detail": v["detail"], "replay": v.get("replay", "")})
        if real.get("inconclusive") and not inconclusive:
            inconclusive = real["inconclusive"]
        ctx.log("real poller: %s scripts, %s steps" % (real.get("evaluations"), real.get("steps")))
    tl_info = None
    if prop == "C08":
        # The whole release binary: the record must track the history the *process* has seen, also
        # when the segment's location only becomes usable after chronyd has already answered.
        from . import c13real, sandbox
        if sandbox.available():
            scripts = [{"phases": [[3.2, "answer"], [4.2, "absent"]], "obstacle_until_s": 3.6},
                       {"phases": [[3.2, "answer"], [4.2, "absent"]], "obstacle_until_s": 1.5},
                       [[3.2, "answer"], [4.2, "absent"]]]
            judged, tviol, tsamples, tincon = c13real.run_timelines(ctx, scripts)
            for v in tviol:
                viol.append({"sig": "whole-binary-record-does-not-track-history", "detail": v["detail"], "replay": v.get("replay", "")})
            tl_info = {"status_samples_judged": judged, "timelines": tsamples}
            if tincon:
                inconclusive = tincon
            ctx.log("whole binary, segment location usable late: %d status samples judged" % judged)
    coverage = {
        "evaluations": agg["evaluations"],
        "distinct_nontrivial": agg["distinct"],
        "rule": rule,
        "samples": samples[:3],
        "stats": agg["stats"],
        "whole_binary_timelines": tl_info,
        "long_lives_of_the_writer_thread": life_info,
    }
    finish(ctx, coverage, viol, inconclusive, assumptions=["expected bounds use dyadic wire values so that the README formula is exact in integers (independent of C07's arithmetic)"])


def replay(ctx, path):
    print(open(path).read())
    print("re-run ./check %s quick: sequences are deterministic for a seed" % ctx.prop)
    raise SystemExit(2)

"""docs/PROTOCOL.md, transcribed by hand (not from the Rust structs): offsets, widths, encodings."""
import struct

MAGIC_DOC_BYTES = bytes([0x41, 0x4D, 0x5A, 0x4E, 0x43, 0x42, 0x02, 0x00])
SEGMENT_SIZE = 72
OFF = {"magic": 0, "size": 8, "version": 12, "generation": 14, "as_of": 16, "void_after": 32, "bound": 48, "max_drift": 56, "reserved": 60, "status": 64, "padding": 68}


def magic_readings():
    """The three ways the document's hex string can be read on this (little endian) machine."""
    as_u64 = struct.pack("=Q", int.from_bytes(MAGIC_DOC_BYTES, "big"))
    as_two_u32 = struct.pack("=II", int.from_bytes(MAGIC_DOC_BYTES[:4], "big"), int.from_bytes(MAGIC_DOC_BYTES[4:], "big"))
    return {"byte string": MAGIC_DOC_BYTES, "one native u64": as_u64, "two native u32": as_two_u32}


def encode(as_of, void_after, bound, drift, reserved, status, generation=2, version=1, size=SEGMENT_SIZE, magic=None):
    magic = magic if magic is not None else magic_readings()["two native u32"]
    b = bytearray(72)
    b[0:8] = magic
    struct.pack_into("=I", b, 8, size)
    struct.pack_into("=H", b, 12, version)
    struct.pack_into("=H", b, 14, generation)
    struct.pack_into("=qq", b, 16, as_of[0], as_of[1])
    struct.pack_into("=qq", b, 32, void_after[0], void_after[1])
    struct.pack_into("=q", b, 48, bound)
    struct.pack_into("=I", b, 56, drift)
    struct.pack_into("=I", b, 60, reserved)
    struct.pack_into("=i", b, 64, status)
    return bytes(b)


def decode(b):
    if len(b) < 72:
        return None
    return {
        "magic": bytes(b[0:8]),
        "size": struct.unpack_from("=I", b, 8)[0],
        "version": struct.unpack_from("=H", b, 12)[0],
        "generation": struct.unpack_from("=H", b, 14)[0],
        "as_of": struct.unpack_from("=qq", b, 16),
        "void_after": struct.unpack_from("=qq", b, 32),
        "bound": struct.unpack_from("=q", b, 48)[0],
        "max_drift": struct.unpack_from("=I", b, 56)[0],
        "reserved": struct.unpack_from("=I", b, 60)[0],
        "status": struct.unpack_from("=i", b, 64)[0],
    }


def expected_open(content, magic):
    """Decision table of C16 for a regular file with this content: set of acceptable outcomes.
    Outcomes: 'OPENED', 'ERR SegmentNotInitialized 0 -', 'ERR SegmentMalformed 0 -', 'ERR Syscall <n> mmap SHM segment'."""
    NI = "ERR SegmentNotInitialized 0 -"
    MF = "ERR SegmentMalformed 0 -"
    if len(content) < 16:
        return {NI}, "short"
    magic_ok = content[0:8] == magic
    size = struct.unpack_from("=I", content, 8)[0]
    version = struct.unpack_from("=H", content, 12)[0]
    generation = struct.unpack_from("=H", content, 14)[0]
    ni = (not magic_ok) or version == 0 or generation == 0
    mf = size < 72
    if ni and mf:
        # clockbound.h: MALFORMED means "initialized but malformed"; a segment that is not initialised is NOT_INITIALIZED
        return {NI}, "both"
    if ni:
        return {NI}, "not-initialised"
    if mf:
        return {MF}, "malformed"
    if len(content) < 72:
        # "succeeds only if": a reader that also refuses a file too short to hold the record is within the statement
        return {"OPENED", NI, MF}, "valid-header-short-file"
    if size > (1 << 20):
        return {"OPENED", "ERR Syscall * mmap SHM segment"}, "huge-declared-size"
    return {"OPENED"}, "valid"

"""C07 — published bound implements |offset| + dispersion + delay/2 (+PHC), rounded up."""
import json
import os
from concurrent.futures import ProcessPoolExecutor

from . import daemon
from .common import NPROC, finish


def judge_file(path):
    n = 0
    bad = []
    neg = 0
    distinct = set()
    for ln in open(path):
        t = ln.split()
        if len(t) != 5:
            continue
        f = [int(x) for x in t]
        n += 1
        distinct.add(ln)
        if f[0] & 0x1000000:
            neg += 1
        r = daemon.c07_judge(*f)
        if r and len(bad) < 50:
            bad.append((r[0], r[1], ln.strip()))
    return n, bad, neg, len(distinct)


def run(ctx):
    q = ctx.quick()
    b = daemon.build(ctx)
    parts = daemon.run_mode(ctx, b, "c07", 600000 if q else 20000000, dump=True)
    agg, viol, samples, incon = daemon.merge(parts, sum_keys=("evaluations", "file_checks"))
    dumps = [p["_dump"] for p in parts if p and not p.get("_crashed")]
    judged = 0
    neg = 0
    distinct = 0
    with ProcessPoolExecutor(NPROC) as ex:
        for n, bad, ng, dc in ex.map(judge_file, dumps):
            judged += n
            neg += ng
            distinct += dc
            for sig, text, line in bad:
                if len(viol) < 40:
                    rp = os.path.join(ctx.replay_dir, "C07-%d-%d.json" % (ctx.seed, len(viol)))
                    with open(rp, "w") as f:
                        json.dump({"property": "C07", "engine": "daemonsim c07 + python exact oracle", "wire_and_result": line, "fields": "correction_bits delay_bits dispersion_bits phc_bound published_bound_nsec", "sig": sig, "detail": text}, f, indent=1)
                    viol.append({"sig": sig, "detail": text, "replay": rp})
    ctx.log("c07: %d reports published, %d judged by the exact oracle, %d with a negative offset" % (agg["evaluations"], judged, neg))
    # End to end for the "+PHC" term: the value must be the one the PHC error-bound file holds at
    # that poll. The real poller loop reads a file that is rewritten during the history (world of C13).
    from . import c01
    wagg, wviol, wsamples, wincon = c01.run_world(ctx, "c13", 3000 if q else 60000)
    phc_msgs = sum(v for k, v in wagg["outcomes_by_kind"].items() if k.startswith("ClockErrorBoundData"))
    ctx.log("poller level: %d histories, %d measurement messages checked against the PHC file" % (wagg["evaluations"], phc_msgs))
    for v in wviol:
        if v["sig"] in ("phc-bound",):
            viol.append({"sig": "phc-value-not-current", "detail": v["detail"], "replay": v.get("replay", "")})
    # ... and the real poller (persistent across polls) over a real socket, PHC file rewritten or removed per poll.
    from . import c13real
    real = c13real.run_real(ctx)
    for v in real["violations"]:
        if v["sig"] == "real-poller-measurement":
            viol.append({"sig": "phc-value-not-current", "detail": v["detail"], "replay": v.get("replay", "")})
    ctx.log("real poller: %s scripts, %s steps" % (real.get("evaluations"), real.get("steps")))
    # ... and the whole binary with reference-id names of every spelling on its command line
    vb, _vs, name_info = c13real.run_phc_names(ctx)
    viol += vb
    ctx.log("reference-id names through the command line: %s" % {k: v for k, v in name_info.items() if k != "names"})
    inconclusive = incon or wincon or real.get("inconclusive") or name_info.get("inconclusive")
    if agg["shards_lost"]:
        inconclusive = "%d shards did not finish" % agg["shards_lost"]
    elif judged < agg["evaluations"] * 0.99 and not viol:
        inconclusive = "only %d of %d published bounds reached the oracle" % (judged, agg["evaluations"])
    elif neg < 1000:
        inconclusive = "too few negative offsets generated (%d)" % neg
    line0 = open(dumps[0]).readline().split() if dumps else []
    coverage = {
        "evaluations": agg["evaluations"],
        "distinct_nontrivial": distinct,
        "rule": "each evaluation: wire bytes of a chrony Tracking reply with chosen 32-bit patterns in the offset / root delay / root dispersion fields -> chrony-candm's deserialiser -> Message -> the real process_messages/ShmUpdater on its own thread -> real ShmWriter -> record read from the sink (and the file); "
                "patterns stratified over all 96 exponents of the meaningful range x edge/random coefficients x both offset signs, zeros, sub-ns values, sums within 1e-6 of a whole ns, realistic us..ms magnitudes, PHC bound in {0,1,12345,2^40}; "
                "poller level: histories of the real poller loop with a PHC error-bound file whose content changes, the PHC term of every measurement message must equal the file's value at that poll; oracle: exact rational evaluation (Python fractions) of the README formula on the decoded wire values, b >= E(1-2^-50), b <= ceil(E)+1, b >= 0; distinct_nontrivial = distinct (wire patterns, phc, result) lines",
        "samples": [{"correction_bits": int(line0[0]), "delay_bits": int(line0[1]), "dispersion_bits": int(line0[2]), "phc": int(line0[3]), "published_bound_nsec": int(line0[4]),
                     "decoded_offset_s": float(daemon.decode_float(int(line0[0])))}] if line0 else [],
        "generator_kinds": agg["kinds"],
        "negative_offsets": neg,
        "judged_by_exact_oracle": judged,
        "file_readbacks": agg["file_checks"],
        "reference_id_names_whole_binary": name_info,
        "poller_level_histories": wagg["evaluations"],
        "poller_level_measurement_messages": phc_msgs,
    }
    finish(ctx, coverage, viol, inconclusive, assumptions=["chrony float layout (7-bit exponent, 25-bit coefficient) transcribed from chrony's candm.h description into vlib/daemon.py", "meaningful range: |value| < 2^30 s"])


def replay(ctx, path):
    j = json.load(open(path))
    f = [int(x) for x in j["wire_and_result"].split()]
    print("recorded:", j["detail"])
    print("note: re-run ./check C07 quick to re-execute the daemon on these wire values (deterministic for a seed); oracle verdict on the recorded result:", daemon.c07_judge(*f))
    raise SystemExit(1 if daemon.c07_judge(*f) else 0)

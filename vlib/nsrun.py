#!/usr/bin/env python3
"""Runs INSIDE a private mount namespace (see sandbox.py): drives the real `clockbound` binary.

  nsrun.py c19 <binary> <out.json> <rate|omit> ...
  nsrun.py c15 <binary> <out.json> <plans.json>
  nsrun.py timeline <binary> <out.json> <script.json>

Includes a minimal chronyd stand-in speaking the chrony command protocol (tracking replies laid out
by hand from chrony's candm.h: 28-byte reply header + 76-byte tracking body)."""
import json
import math
import os
import select
import signal
import socket
import struct
import subprocess
import sys
import threading
import time

SHM = "/run/clockbound/shm"
SOCK = "/run/chrony/chronyd.sock"


def chrony_float(x):
    """chrony's 32-bit float: 7-bit signed exponent, 25-bit signed coefficient (UTI_DoubleToFloat port)."""
    if x != x:
        x = 0.0
    neg = 1 if x < 0 else 0
    x = abs(x)
    if x < 1e-100:
        exp, coef = 0, 0
    elif x > 1e100:
        exp, coef = 63, (1 << 24) - 1 + neg
    else:
        exp = int(math.log2(x)) + 1
        coef = int(x * 2.0 ** (-exp + 25) + 0.5)
        while coef > (1 << 24) - 1 + neg:
            coef >>= 1
            exp += 1
        if exp > 63:
            exp, coef = 63, (1 << 24) - 1 + neg
        elif exp < -64:
            if exp + 25 >= -64:
                coef >>= -64 - exp
                exp = -64
            else:
                exp, coef = 0, 0
    if neg:
        coef = (-coef) & 0x1FFFFFF
    return ((exp & 0x7F) << 25) | (coef & 0x1FFFFFF)


def tracking_reply(request, ref_id=0x7F7F0101, leap=0, offset=1e-5, delay=2e-4, dispersion=3e-5, interval=16.0, ref_age=1.0):
    cmd, = struct.unpack_from(">H", request, 4)
    seq, = struct.unpack_from(">I", request, 8)
    hdr = struct.pack(">BBBBHHHHHHIII", 6, 2, 0, 0, cmd, 5, 0, 0, 0, 0, seq, 0, 0)
    now = time.time() - ref_age
    sec = int(math.floor(now))
    nsec = int((now - sec) * 1e9)
    body = struct.pack(">I", ref_id) + bytes(16) + struct.pack(">HH", 0, 0) + struct.pack(">HH", 1, leap)
    body += struct.pack(">iII", sec >> 32, sec & 0xFFFFFFFF, nsec)
    floats = [offset, offset, abs(offset), 0.0, 0.0, 0.0, delay, dispersion, interval]
    body += b"".join(struct.pack(">I", chrony_float(f)) for f in floats)
    return hdr + body


class FakeChronyd(threading.Thread):
    """mode: 'answer' | 'silent' | 'unsync' | 'absent' (socket removed); changeable at run time."""

    def __init__(self, mode="answer", ref_id=0x7F7F0101):
        super().__init__(daemon=True)
        self.mode = mode
        self.ref_id = ref_id
        self.sock = None
        self.requests = 0
        self.stop = False
        self.lock = threading.Lock()
        self.set_mode(mode)

    def set_mode(self, mode):
        with self.lock:
            self.mode = mode
            if mode == "absent":
                if self.sock:
                    self.sock.close()
                    self.sock = None
                try:
                    os.unlink(SOCK)
                except OSError:
                    pass
            elif self.sock is None:
                try:
                    os.unlink(SOCK)
                except OSError:
                    pass
                s = socket.socket(socket.AF_UNIX, socket.SOCK_DGRAM)
                s.bind(SOCK)
                os.chmod(SOCK, 0o777)
                s.settimeout(0.05)
                self.sock = s

    def run(self):
        while not self.stop:
            with self.lock:
                s, mode = self.sock, self.mode
            if s is None:
                time.sleep(0.02)
                continue
            try:
                data, addr = s.recvfrom(2048)
            except (socket.timeout, OSError):
                continue
            self.requests += 1
            if mode.startswith("slow"):
                # every reply takes this many milliseconds
                time.sleep(int(mode[4:]) / 1000.0)
                rep = tracking_reply(data, ref_id=self.ref_id)
            elif mode == "answer":
                rep = tracking_reply(data, ref_id=self.ref_id)
            elif mode == "unsync":
                rep = tracking_reply(data, ref_id=self.ref_id, leap=3, delay=1.0, dispersion=1.0)
            elif mode == "badversion":
                # prompt replies the client cannot use: another protocol version
                rep = bytearray(tracking_reply(data, ref_id=self.ref_id))
                rep[0] = 5
                rep = bytes(rep)
            elif mode == "badseq":
                rep = bytearray(tracking_reply(data, ref_id=self.ref_id))
                struct.pack_into(">I", rep, 16, (struct.unpack_from(">I", rep, 16)[0] + 1) & 0xFFFFFFFF)
                rep = bytes(rep)
            elif mode == "short":
                rep = tracking_reply(data, ref_id=self.ref_id)[:40]
            elif mode == "badreftime":
                # a tracking reply whose reference time cannot be a time (nanoseconds field 2e9): on the
                # pinned tree the polling thread dies on it and the daemon winds down
                rep = bytearray(tracking_reply(data, ref_id=self.ref_id))
                struct.pack_into(">iII", rep, 56, -1, 0xFFFFFFFF, 2000000000)
                rep = bytes(rep)
            elif mode == "errorstatus":
                # a well-formed reply with the right sequence number that is not tracking data: RPY_NULL, status "unauthorised"
                rep = bytearray(tracking_reply(data, ref_id=self.ref_id)[:28])
                struct.pack_into(">HH", rep, 6, 1, 2)
                rep = bytes(rep)
            else:
                continue
            try:
                s.sendto(rep, addr)
            except OSError:
                pass


def read_segment():
    try:
        with open(SHM, "rb") as f:
            b = f.read()
    except OSError:
        return None
    if len(b) < 72:
        return None
    gen, = struct.unpack_from("=H", b, 14)
    if gen == 0 or gen % 2:
        return None
    return b


def kill(p):
    # the whole process group when the child leads one (a tracer and its tracee)
    try:
        if os.getpgid(p.pid) == p.pid:
            os.killpg(p.pid, signal.SIGKILL)
    except OSError:
        pass
    if p.poll() is None:
        p.send_signal(signal.SIGKILL)
    try:
        p.wait(timeout=5)
    except Exception:
        pass


def c19(binary, out, rates):
    """rates: 'omit' | '<n>' | '<n>+phc' (PHC options given, private /sys) | '<n>+json' | '<a>><b>' (start
    with a, let it publish, kill it, start with b over the same segment)."""
    results = []
    sys_ready = False
    for spec in rates:
        try:
            os.unlink(SHM)
        except OSError:
            pass
        prev_gen = None
        r = spec
        if ">" in spec:
            first, r = spec.split(">", 1)
            p0 = subprocess.Popen([binary] if first == "omit" else [binary, "--max-drift-rate", first], stdout=subprocess.DEVNULL, stderr=subprocess.DEVNULL)
            t0 = time.monotonic()
            seg0 = None
            while time.monotonic() - t0 < 8.0 and seg0 is None and p0.poll() is None:
                seg0 = read_segment()
                time.sleep(0.005)
            kill(p0)
            seg0 = read_segment()
            if seg0 is None:
                results.append({"rate": spec, "published": None, "exit_code": p0.returncode, "alive_when_observed": False, "waited_s": 0, "stderr_tail": "first instance did not publish", "setup_failed": True})
                continue
            prev_gen = struct.unpack_from("=H", seg0, 14)[0]
        extra = []
        if r.endswith("+phc"):
            r = r[:-4]
            if not sys_ready:
                subprocess.run("mount -t tmpfs tmpfs /sys && mkdir -p /sys/class/net/eth0/device /sys/bus/pci/devices/0000:00:05.0 && echo PCI_SLOT_NAME=0000:00:05.0 > /sys/class/net/eth0/device/uevent && echo 1234 > /sys/bus/pci/devices/0000:00:05.0/phc_error_bound", shell=True, check=True)
                sys_ready = True
            extra = ["--phc-ref-id", "PHC0", "--phc-interface", "eth0"]
        if r.endswith("+json"):
            r = r[:-5]
            extra = ["--json-output"]
        life = None
        if "+life" in r:
            # "<rate>+life<SIG>": a chronyd stand-in answers; the daemon runs for a few seconds,
            # receives the signal after 1.6 s, and the segment is sampled every 10 ms throughout
            r, life = r.split("+life", 1)
        wrap = []
        if r.endswith("+slowspawn"):
            # the thread that spawns the daemon's threads is held back 300 ms after each spawn
            r = r[:-10]
            wrap = ["strace", "-f", "-o", "/dev/null", "-e", "trace=clone,clone3", "-e", "inject=clone,clone3:delay_exit=300000"]
        args = wrap + ([binary] if r == "omit" else [binary, "--max-drift-rate", r]) + extra
        if life is not None:
            results.append(c19_life(args, spec, life))
            continue
        t0 = time.monotonic()
        p = subprocess.Popen(args, stdout=subprocess.DEVNULL, stderr=subprocess.PIPE, start_new_session=bool(wrap))
        seg = None
        rc = None
        while time.monotonic() - t0 < 8.0:
            seg = read_segment()
            if seg and prev_gen is not None and struct.unpack_from("=H", seg, 14)[0] == prev_gen:
                seg = None  # still the previous instance's publication
            if seg:
                break
            rc = p.poll()
            if rc is not None:
                seg = read_segment()
                if seg and prev_gen is not None and struct.unpack_from("=H", seg, 14)[0] == prev_gen:
                    seg = None
                break
            time.sleep(0.005)
        waited = time.monotonic() - t0
        alive = p.poll() is None
        kill(p)
        err = p.stderr.read().decode(errors="replace")[-300:] if p.stderr else ""
        results.append({"rate": spec, "published": seg.hex() if seg else None, "exit_code": rc, "alive_when_observed": alive, "waited_s": round(waited, 3), "stderr_tail": err if not seg else ""})
    json.dump(results, open(out, "w"))


def c19_life(args, spec, signame):
    chronyd = FakeChronyd("answer")
    chronyd.start()
    p = subprocess.Popen(args, stdout=subprocess.DEVNULL, stderr=subprocess.PIPE)
    t0 = time.monotonic()
    drifts = {}
    statuses = {}
    first = None
    signalled = False
    samples = 0
    while time.monotonic() - t0 < 4.2:
        now = time.monotonic() - t0
        if signame == "REFUSE":
            # chronyd answers every request with an error status for a while, then recovers
            want_mode = "errorstatus" if 1.3 <= now < 3.0 else "answer"
            if chronyd.mode != want_mode:
                chronyd.set_mode(want_mode)
        elif signame == "DIE":
            # a worker thread of the daemon dies on the way (chronyd sends a reply it cannot digest): whatever
            # the daemon writes while winding down, the drift field stays the configured one
            if now >= 1.6 and chronyd.mode != "badreftime":
                chronyd.set_mode("badreftime")
        elif not signalled and now >= 1.6 and signame:
            signalled = True
            if p.poll() is None:
                p.send_signal(getattr(signal, signame))
        seg = read_segment()
        if seg:
            samples += 1
            d, = struct.unpack_from("=I", seg, 56)
            st, = struct.unpack_from("=i", seg, 64)
            drifts[d] = drifts.get(d, 0) + 1
            statuses[st] = statuses.get(st, 0) + 1
            if first is None:
                first = seg
        time.sleep(0.01)
    rc = p.poll()
    alive = rc is None
    kill(p)
    chronyd.stop = True
    err = p.stderr.read().decode(errors="replace")[-300:] if p.stderr else ""
    return {"rate": spec, "published": first.hex() if first else None, "exit_code": rc, "alive_when_observed": alive, "waited_s": 4.2, "stderr_tail": err if not first else "",
            "life": {"signal": signame, "samples": samples, "drift_values_seen": {str(k): v for k, v in drifts.items()}, "statuses_seen": {str(k): v for k, v in statuses.items()}, "chronyd_requests": chronyd.requests, "alive_at_end": alive}}


def c02stop(binary, out, signames):
    """The hooked daemon (single-writer monitor on) with chronyd answering; a signal after 1.6 s; what
    the process says on stderr and how it ends."""
    res = []
    for signame in signames:
        try:
            os.unlink(SHM)
        except OSError:
            pass
        chronyd = FakeChronyd("answer")
        chronyd.start()
        env = dict(os.environ, CLOCKBOUND_VERIF_SINGLE_WRITER="report")
        env.pop("CLOCKBOUND_VERIF_FAILPOINT", None)
        if ":" in signame:
            # "<SIG>:<site>:<hit>:<action>": a failpoint as well (a worker dies, the daemon stops by itself)
            signame, fp = signame.split(":", 1)
            env["CLOCKBOUND_VERIF_FAILPOINT"] = fp
        p = subprocess.Popen([binary], stdout=subprocess.DEVNULL, stderr=subprocess.PIPE, env=env)
        t0 = time.monotonic()
        sent = False
        while time.monotonic() - t0 < 4.5:
            if not sent and time.monotonic() - t0 >= 1.6:
                sent = True
                if signame == "DIE":
                    # the polling thread dies on chronyd's next reply (reference time that is no time)
                    chronyd.set_mode("badreftime")
                elif signame and p.poll() is None:
                    p.send_signal(getattr(signal, signame))
            if p.poll() is not None and sent:
                break
            time.sleep(0.02)
        rc = p.poll()
        kill(p)
        chronyd.stop = True
        chronyd.set_mode("absent")
        err = p.stderr.read().decode(errors="replace")
        seg = read_segment()
        res.append({"signal": signame, "failpoint": env.get("CLOCKBOUND_VERIF_FAILPOINT"), "exit_code": rc, "single_writer_reports": [l for l in err.splitlines() if "VERIF-SINGLE-WRITER" in l][:3],
                    "published": seg is not None, "chronyd_requests": chronyd.requests})
    json.dump(res, open(out, "w"))


def phcnames(binary, out, names):
    """The release binary with --phc-ref-id NAME --phc-interface eth0 in a private /sys, chronyd reporting
    the 4-character reference id NAME (packed ASCII). Two runs per name: the PHC error-bound attribute
    reads 5000000; the attribute is absent."""
    subprocess.run("mount -t tmpfs tmpfs /sys && mkdir -p /sys/class/net/eth0/device /sys/bus/pci/devices/0000:00:05.0 && echo PCI_SLOT_NAME=0000:00:05.0 > /sys/class/net/eth0/device/uevent", shell=True, check=True)
    attr = "/sys/bus/pci/devices/0000:00:05.0/phc_error_bound"
    res = []
    for ni, name in enumerate(names):
        # the attribute reads 5000000, is absent, or (first name of each run) reads back without a value:
        # empty, a lone newline, blanks, something that is not a number
        for present in (True, False) + (("", "\n", "  \n", "n/a\n") if ni == 0 else ()):
            try:
                os.unlink(SHM)
            except OSError:
                pass
            if present is True:
                with open(attr, "w") as f:
                    f.write("5000000\n")
            elif present is not False:
                with open(attr, "w") as f:
                    f.write(present)
            else:
                try:
                    os.unlink(attr)
                except OSError:
                    pass
            ref = struct.unpack(">I", name.encode("ascii"))[0]
            chronyd = FakeChronyd("answer", ref_id=ref)
            chronyd.start()
            p = subprocess.Popen([binary, "--phc-ref-id", name, "--phc-interface", "eth0"], stdout=subprocess.DEVNULL, stderr=subprocess.PIPE)
            t0 = time.monotonic()
            seen = {}
            while time.monotonic() - t0 < 3.2:
                seg = read_segment()
                if seg and time.monotonic() - t0 > 1.3:
                    st, = struct.unpack_from("=i", seg, 64)
                    b, = struct.unpack_from("=q", seg, 48)
                    seen[(st, b)] = seen.get((st, b), 0) + 1
                time.sleep(0.02)
            rc = p.poll()
            kill(p)
            chronyd.stop = True
            chronyd.set_mode("absent")
            err = p.stderr.read().decode(errors="replace")[-300:]
            res.append({"name": name, "attribute_present": present is True, "attribute_content": None if present in (True, False) else present, "exit_code": rc, "chronyd_requests": chronyd.requests, "records_seen": [[k[0], k[1], v] for k, v in seen.items()], "stderr_tail": err if not seen else ""})
    json.dump(res, open(out, "w"))


def run_plan(binary, plan):
    """plan: {site, hit, action, chronyd, env?, args?, natural?}. Returns an observation dict."""
    for f in (SHM,):
        try:
            if os.path.isdir(f):
                os.rmdir(f)
            else:
                os.unlink(f)
        except OSError:
            pass
    chronyd = None
    if plan.get("chronyd", "absent") != "absent":
        chronyd = FakeChronyd(plan["chronyd"], ref_id=plan.get("ref_id", 0x7F7F0101))
        chronyd.start()
    else:
        try:
            os.unlink(SOCK)
        except OSError:
            pass
    env = dict(os.environ)
    if plan.get("site"):
        env["CLOCKBOUND_VERIF_FAILPOINT"] = "%s:%d:%s" % (plan["site"], plan["hit"], plan["action"])
    else:
        env.pop("CLOCKBOUND_VERIF_FAILPOINT", None)
    natural = plan.get("natural")
    if natural and natural.startswith("worker-stalls"):
        natural = "worker-stalls"
    if natural == "shm-is-directory":
        os.makedirs(SHM, exist_ok=True)
    if natural == "segment-dir-full":
        # the segment's directory is a file system without a free block (ENOSPC on the first write)
        d = os.path.dirname(SHM)
        os.makedirs(d, exist_ok=True)
        subprocess.run(["mount", "-t", "tmpfs", "-o", "size=64k", "tmpfs", d], check=True)
        try:
            with open(os.path.join(d, "filler"), "wb") as f:
                while True:
                    f.write(b"x" * 4096)
                    f.flush()
        except OSError:
            pass
    phc_file = None
    args = [binary] + plan.get("args", [])
    if natural and natural.startswith("phc"):
        # A private /sys with one interface whose PHC error bound file we control.
        subprocess.run("mount -t tmpfs tmpfs /sys && mkdir -p /sys/class/net/eth0/device /sys/bus/pci/devices/0000:00:05.0 && echo PCI_SLOT_NAME=0000:00:05.0 > /sys/class/net/eth0/device/uevent", shell=True, check=True)
        phc_file = "/sys/bus/pci/devices/0000:00:05.0/phc_error_bound"
        with open(phc_file, "w") as f:
            f.write("not-a-number\n" if natural == "phc-garbage-at-start" else "1234\n")
        args += ["--phc-ref-id", "PHC0", "--phc-interface", "eth0"]
    lock_holder = None
    if plan.get("segment_lock"):
        # another process holds a lock on the segment file for the whole run
        os.makedirs(os.path.dirname(SHM), exist_ok=True)
        if plan.get("segment_before") == "valid":
            seg = struct.pack("=IIIHH", 0x414D5A4E, 0x43420200, 72, 1, 4) + struct.pack("=qqqqqIIiI", 10, 0, 1010, 0, 5, 1000, 0, 0, 0)
            with open(SHM, "wb") as f:
                f.write(seg)
        code = ("import fcntl,os,sys,time\nfd=os.open(%r,os.O_RDWR|os.O_CREAT,0o644)\n" % SHM) + \
               ("fcntl.flock(fd,fcntl.LOCK_EX)\n" if plan["segment_lock"] == "flock" else "fcntl.lockf(fd,fcntl.LOCK_EX)\n") + "print('locked',flush=True)\ntime.sleep(600)\n"
        lock_holder = subprocess.Popen([sys.executable, "-c", code], stdout=subprocess.PIPE)
        lock_holder.stdout.readline()
    t_start = time.monotonic_ns()
    p = subprocess.Popen(args, stdout=subprocess.DEVNULL, stderr=subprocess.PIPE, env=env)
    fired_ns = None
    fault_ns = None
    lines = []
    deadline_fire = time.monotonic() + plan.get("fire_within_s", 30)
    os.set_blocking(p.stderr.fileno(), False)
    buf = b""
    exit_ns = None
    polls_before_fault = plan.get("fault_after_s")
    while True:
        rc = p.poll()
        r, _, _ = select.select([p.stderr], [], [], 0.02)
        if r:
            try:
                chunk = p.stderr.read()
            except Exception:
                chunk = None
            if chunk:
                buf += chunk
                while b"\n" in buf:
                    ln, buf = buf.split(b"\n", 1)
                    s = ln.decode(errors="replace")
                    lines.append(s)
                    if s.startswith("VERIF-FAILPOINT fired") and fired_ns is None:
                        fired_ns = int(s.split()[-1])
                    if natural and fault_ns is None and ("panicked" in s or "Failed to create" in s):
                        fault_ns = time.monotonic_ns()
        now = time.monotonic_ns()
        if natural == "phc-garbage-later" and fault_ns is None and polls_before_fault and now - t_start > polls_before_fault * 1e9 and phc_file and open(phc_file).read() != "garbage\n":
            with open(phc_file, "w") as f:
                f.write("garbage\n")
        if natural == "chronyd-vanishes" and chronyd and polls_before_fault and now - t_start > polls_before_fault * 1e9 and chronyd.mode != "absent":
            chronyd.set_mode("absent")
        # chronyd changes its behaviour over time: [[seconds since start, mode], ...]
        for at_s, mode in plan.get("chronyd_script", []):
            if chronyd and now - t_start > at_s * 1e9 and mode not in plan.setdefault("_done_modes", []):
                plan["_done_modes"].append(mode)
                chronyd.set_mode(mode)
        if rc is not None:
            exit_ns = time.monotonic_ns()
            break
        ref = fired_ns or fault_ns
        if ref is not None and now - ref > 40e9:
            break
        if ref is None and time.monotonic() > deadline_fire:
            break
    alive = p.poll() is None
    kill(p)
    if lock_holder:
        kill(lock_holder)
    if chronyd:
        chronyd.stop = True
        chronyd.set_mode("absent")
    ref = fired_ns or fault_ns
    plan.pop("_done_modes", None)
    obs = dict(plan)
    obs.update({
        "fired": ref is not None,
        "exited": exit_ns is not None,
        "exit_code": p.returncode if exit_ns is not None else None,
        "latency_ms": round((exit_ns - ref) / 1e6, 1) if (ref is not None and exit_ns is not None) else None,
        "alive_after_40s": alive and ref is not None,
        "published_before": read_segment() is not None,
        "chronyd_requests": chronyd.requests if chronyd else 0,
        "log_tail": [l for l in lines if "VERIF" in l or "panick" in l or "ERROR" in l or "exiting" in l][-6:],
    })
    return obs


def c15(binary, out, plans_file):
    plans = json.load(open(plans_file))
    res = [run_plan(binary, pl) for pl in plans]
    json.dump(res, open(out, "w"))


def timeline(binary, out, script_file):
    """script: list of [duration_s, chronyd_mode]; samples the segment status every 100 ms."""
    script = json.load(open(script_file))
    obstacle_until = None
    if isinstance(script, dict):
        # {"phases": [...], "obstacle_until_s": t}: until t the segment's directory is a regular file
        # (a location that is provisioned late); a daemon may refuse to start on it
        obstacle_until = script.get("obstacle_until_s")
        script = script["phases"]
    d = os.path.dirname(SHM)
    if obstacle_until is not None:
        try:
            os.rmdir(d)
        except OSError:
            pass
        with open(d, "w") as f:
            f.write("not a directory\n")
    chronyd = FakeChronyd("absent")
    chronyd.start()
    p = subprocess.Popen([binary], stdout=subprocess.DEVNULL, stderr=subprocess.DEVNULL)
    samples = []
    t0 = time.monotonic()
    phases = []
    for dur, mode in script:
        chronyd.set_mode(mode)
        start = time.monotonic() - t0
        phases.append([round(start, 3), mode])
        while time.monotonic() - t0 < start + dur:
            if obstacle_until is not None and time.monotonic() - t0 >= obstacle_until:
                obstacle_until = None
                os.unlink(d)
                os.makedirs(d, exist_ok=True)
            b = read_segment()
            if b:
                samples.append([round(time.monotonic() - t0, 3), struct.unpack_from("=i", b, 64)[0], struct.unpack_from("=q", b, 48)[0]])
            time.sleep(0.1)
    alive = p.poll() is None
    final = read_segment()
    kill(p)
    chronyd.stop = True
    json.dump({"phases": phases, "samples": samples, "daemon_alive_at_end": alive, "daemon_exit_code": p.returncode, "chronyd_requests": chronyd.requests, "final_segment": final.hex() if final else None, "file_size": os.path.getsize(SHM) if os.path.exists(SHM) else -1}, open(out, "w"))


def c04restart(binary, out, ages):
    """The release binary killed and restarted over the segment it published, a client attached all along
    (this process: one descriptor and one mapping opened during the first incarnation and never re-opened).
    `ages`: what the file's timestamps say at the restart (seconds relative to now, "keep" = untouched)."""
    import mmap
    res = []
    for age in ages:
        try:
            os.unlink(SHM)
        except OSError:
            pass
        chronyd = FakeChronyd("answer")
        chronyd.start()
        obs = {"age": age, "sizes_seen": {}, "problems": []}
        p1 = subprocess.Popen([binary], stdout=subprocess.DEVNULL, stderr=subprocess.PIPE)
        t0 = time.monotonic()
        seg = None
        while time.monotonic() - t0 < 8.0 and (seg is None or struct.unpack_from("=i", seg, 64)[0] != 1):
            seg = read_segment()
            time.sleep(0.01)
        if seg is None:
            kill(p1)
            chronyd.stop = True
            chronyd.set_mode("absent")
            obs["inconclusive"] = "the first incarnation did not publish: %s" % p1.stderr.read().decode(errors="replace")[-200:]
            res.append(obs)
            continue
        fd = os.open(SHM, os.O_RDONLY)
        m = mmap.mmap(fd, 72, prot=mmap.PROT_READ)
        ino0 = os.fstat(fd).st_ino
        time.sleep(1.2)   # a few more publications
        kill(p1)
        gen_at_death, = struct.unpack_from("=H", m, 14)
        rec_at_death = bytes(m[16:72])
        obs["generation_at_death"] = gen_at_death
        if age != "keep":
            t = time.time() + float(age)
            os.utime(SHM, (t, t))
        p2 = subprocess.Popen([binary], stdout=subprocess.DEVNULL, stderr=subprocess.PIPE)
        t1 = time.monotonic()
        gens = []
        while time.monotonic() - t1 < 3.0:
            try:
                st = os.stat(SHM)
                obs["sizes_seen"][str(st.st_size)] = obs["sizes_seen"].get(str(st.st_size), 0) + 1
                if st.st_ino != ino0 and "inode" not in obs:
                    obs["inode"] = "changed %.3f s after the restart" % (time.monotonic() - t1)
            except OSError:
                obs["sizes_seen"]["missing"] = obs["sizes_seen"].get("missing", 0) + 1
            g, = struct.unpack_from("=H", m, 14)
            if not gens or gens[-1] != g:
                gens.append(g)
            time.sleep(0.005)
        alive2 = p2.poll() is None
        obs["second_incarnation_alive"] = alive2
        obs["generations_seen_through_the_old_mapping"] = gens[:12]
        try:
            cur = open(SHM, "rb").read()
        except OSError:
            cur = b""
        kill(p2)
        obs["stderr_tail"] = p2.stderr.read().decode(errors="replace")[-200:] if not alive2 else ""
        if not alive2:
            obs["inconclusive"] = "the restarted daemon exited: %s" % obs["stderr_tail"]
        else:
            # (c) taken over in place: same file, never emptied, the generation goes on from where it was
            if "inode" in obs:
                obs["problems"].append("the segment at the path is another file than before the restart (inode %s): re-created, not taken over" % obs["inode"])
            if any(k not in ("72",) for k in obs["sizes_seen"]):
                obs["problems"].append("the file was seen with sizes %s during the restart (emptied or re-created)" % obs["sizes_seen"])
            # (b) the attached client sees the restarted daemon's publications through its old mapping
            if len(gens) < 2:
                obs["problems"].append("through the mapping opened before the restart the generation stayed %s for 3 s although the restarted daemon was running (file at the path now at generation %s)" % (gens, struct.unpack_from("=H", cur, 14)[0] if len(cur) >= 16 else "?"))
            if bytes(m[16:72]) == rec_at_death and len(cur) >= 72 and cur[16:72] != rec_at_death:
                obs["problems"].append("the attached mapping still shows the dead daemon's record while the file at the path holds a newer one")
        m.close()
        os.close(fd)
        chronyd.stop = True
        chronyd.set_mode("absent")
        res.append(obs)
    json.dump(res, open(out, "w"))


if __name__ == "__main__":
    if not os.path.exists("/run/chrony/.verif-private"):
        print("refusing to run outside the private namespace")
        sys.exit(3)
    mode = sys.argv[1]
    if mode == "c19":
        c19(sys.argv[2], sys.argv[3], sys.argv[4:])
    elif mode == "c04restart":
        c04restart(sys.argv[2], sys.argv[3], sys.argv[4:])
    elif mode == "phcnames":
        phcnames(sys.argv[2], sys.argv[3], sys.argv[4:])
    elif mode == "c02stop":
        c02stop(sys.argv[2], sys.argv[3], sys.argv[4:])
    elif mode == "c15":
        c15(sys.argv[2], sys.argv[3], sys.argv[4])
    elif mode == "timeline":
        timeline(sys.argv[2], sys.argv[3], sys.argv[4])

"""C05 — client interval: centred on the clock reading, wide enough, growing with age."""
import os

from . import client
from .common import finish


def run_prop(ctx, prop, rule, min_cells=None, require=None):
    q = ctx.quick()
    rel = client.build_clientsim(ctx, True)
    dbg = client.build_clientsim(ctx, False)
    a1, v1, s1 = client.sweep(ctx, rel, prop, 20000000 if q else 400000000, 0)
    ctx.log("release sweep: %d evaluations, outcomes %s" % (a1["evaluations"], a1["outcomes"]))
    a2, v2, s2 = client.sweep(ctx, dbg, prop, 6000000 if q else 120000000, 1)
    ctx.log("debug (overflow-checked) sweep: %d evaluations" % a2["evaluations"])
    asan_info = None
    if not q:
        # thorough: the same sweep with the repository crates compiled under AddressSanitizer
        asan = ctx.build_harness_asan("clientsim", ["clientsim"])["clientsim"]
        # (the harness leaks its vector-kind names on purpose; leak checking is not what this run is for)
        ctx.env["ASAN_OPTIONS"] = "halt_on_error=1:detect_leaks=0"
        a3, v3a, _s3 = client.sweep(ctx, asan, prop, 2000000, 2)
        asan_info = {"evaluations": a3["evaluations"], "shards_lost": a3["shards_lost"]}
        ctx.log("ASan sweep: %s" % asan_info)
        v2 = v2 + v3a
        if a3["shards_lost"]:
            asan_info["inconclusive"] = "%d shards of the AddressSanitizer build did not finish (no sanitizer report; see log)" % a3["shards_lost"]
    cdrv = client.build_cdriver(ctx, sanitize=True)
    blur = (a1["blur_ns"] or [1000])[0]
    # contexts: file replaced under a live context, mmap failing at open (release and debug builds)
    ctxs = {"evaluations": 0, "counts": {}, "mmap_failures_injected": 0}
    vctx = []
    for bi, binary in enumerate((rel, dbg)):
        parts = ctx.run_shards(binary, ["contexts", "--prop", prop, "--seed", str(ctx.seed * 1000 + 50 + bi), "--count", str(1500 if q else 30000), "--blur", str(blur)], 4, 1800)
        from .shm import crash_violations
        vctx += crash_violations(parts)
        for p in parts:
            if p is None:
                a1["shards_lost"] += 1
                continue
            if p.get("_crashed"):
                continue
            ctxs["evaluations"] += p["evaluations"]
            ctxs["mmap_failures_injected"] += p["mmap_failures_injected"]
            for k, v in p["counts"].items():
                ctxs["counts"][k] = ctxs["counts"].get(k, 0) + v
            vctx += p["violations"]
    ctx.log("contexts: %s" % ctxs)
    # threads of one process, each with its own segment and client, all at once
    thr = {"evaluations": 0, "threads": 0}
    for bi, binary in enumerate((rel, dbg)):
        parts = ctx.run_shards(binary, ["threads", "--prop", prop, "--seed", str(ctx.seed * 1000 + 60 + bi), "--count", str((300000 if q else 6000000) // (1 + 4 * bi)), "--threads", "6", "--blur", str(blur)], 2, 1800)
        from .shm import crash_violations
        vctx += crash_violations(parts)
        for p in parts:
            if p is None:
                a1["shards_lost"] += 1
                continue
            if p.get("_crashed"):
                continue
            thr["evaluations"] += p["evaluations"]
            thr["threads"] = p["threads"]
            vctx += p["violations"]
    ctx.log("threads with their own clients: %s" % thr)
    # one client shared by several threads: possible at all?
    pv, probe_info = client.probe_shared_client(ctx, 2 if q else 10)
    vctx += pv
    ctx.log("shared-client probe: %s" % probe_info)
    n3, v3, info = client.c_parity(ctx, rel, cdrv, prop, 300000 if q else 1000000, [prop], blur)
    ctx.log("C library parity + python oracle: %d vectors %s" % (n3, info))
    viol = v1 + v2 + v3 + vctx
    inconclusive = None
    blurs = sorted(set(a1["blur_ns"] + a2["blur_ns"]))
    if prop == "C14":
        if len(blurs) != 1:
            viol.append({"sig": "blur-not-consistent", "detail": "the causality blur measured on the implementation differs between runs/builds: %s ns" % blurs, "replay": ""})
        elif blurs[0] > 10_000_000:
            viol.append({"sig": "blur-larger-than-clock-granularity", "detail": "the tolerated blur measured on the implementation is %d ns; a clock-granularity tolerance cannot exceed a scheduler tick (10 ms)" % blurs[0], "replay": ""})
    if a1["shards_lost"] or a2["shards_lost"]:
        # a shard that died is a crash of the code under test or of the harness: look at it
        inconclusive = "%d sweep shards did not finish" % (a1["shards_lost"] + a2["shards_lost"])
    cells = dict(a1["cells"])
    for k, v in a2["cells"].items():
        cells[k] = cells.get(k, 0) + v
    if asan_info and asan_info.get("inconclusive"):
        inconclusive = asan_info["inconclusive"]
    if min_cells and len(cells) < min_cells:
        inconclusive = "only %d generator cells reached (expected at least %d)" % (len(cells), min_cells)
    if require:
        for k, n in require.items():
            got = a1["outcomes"].get(k, 0) + a2["outcomes"].get(k, 0)
            if got < n:
                inconclusive = "monitors observed too little: %d answers of kind %s" % (got, k)
    if a1["virtual_clock_reads"] < a1["evaluations"] * 2 * 0.99 and prop != "C14":
        inconclusive = "virtual clock was not read by the code under test"
    coverage = {
        "evaluations": a1["evaluations"] + a2["evaluations"] + n3 + ctxs["evaluations"],
        "distinct_nontrivial": a1["distinct"] + a2["distinct"],
        "rule": rule + ("; distinct counting stopped at 3e6 per shard (memory): distinct_nontrivial is a lower bound" if (a1.get("distinct_capped") or a2.get("distinct_capped")) else ""),
        "samples": s1[:2] + s2[:1],
        "cells": cells if len(cells) < 400 else {"count": len(cells)},
        "outcomes_release": a1["outcomes"],
        "outcomes_debug": a2["outcomes"],
        "chain_checks": a1["chain_checks"] + a2["chain_checks"],
        "rust_asan_sweep": asan_info,
        "threads_with_own_clients": thr,
        "shared_client_probe": probe_info,
        "contexts": dict(ctxs, rule="per iteration one of: segment file replaced by a new inode while an older context of the process is alive / after it was closed, then a new context on the same path must answer from the new file (and follow its next publication); mmap() made to fail (ENOMEM, ENODEV, EAGAIN, EACCES) at the moment of the open: either the open is refused with that errno or the context answers like any other; same oracle as the sweep"),
        "hostile_caller_state": {"release": a1.get("hostile_caller_state"), "debug": a2.get("hostile_caller_state")},
        "causality_blur_measured_ns": blurs,
        "c_library": dict(info, vectors=n3, sanitizers="clang ASan+UBSan, -fno-sanitize-recover=all, canaries around result structs"),
    }
    if prop == "C14":
        _mv, _ms = client.run_mt(ctx, "C14", 2.0 if q else 20.0)
        viol += _mv
        coverage["multi_threaded_c_client"] = _ms
        if any("inconclusive" in str(v) or str(v).startswith("exit ") for v in _ms.values()) and not inconclusive:
            inconclusive = "multi-threaded C client scenario did not complete: %s" % _ms
    finish(ctx, coverage, viol, inconclusive, assumptions=[
        "virtual clock: the harness executables define clock_gettime themselves, so the public now() is evaluated at chosen (realtime, monotonic) readings",
        "f64 evaluation error of the drift product is tolerated up to 2^-50 relative (0 ns for inflations below 2^50 ns)"])


RULE = ("each evaluation = one record published through the real ShmWriter into a real segment file, read back by a persistent real ClockBoundClient whose now() runs with the virtual clocks set to the generated (realtime, monotonic) readings; "
        "generators are stratified (age zero / inside the blur / 1 ns / sub-tick / to the next second boundary / hours / 136 years / drift x age within 1 of an integer / random; bounds 0..2^60; drift 0..1e9-1; timestamps within +-68 years incl. nsec edges) plus monotone chains; "
        "distinct_nontrivial = distinct input vectors (every vector is non-trivial: it yields an answer that the exact-integer oracle judges); release and debug (overflow-checked) builds; a sample goes through libclockbound (C, ASan+UBSan) and an independent Python exact oracle")


def run(ctx):
    run_prop(ctx, "C05", RULE, min_cells=10)


def replay(ctx, path):
    import subprocess
    b = client.build_clientsim(ctx, True)
    p = subprocess.run([b, "replay", "--file", path], stdout=subprocess.PIPE, text=True)
    print(p.stdout)
    import json
    j = json.loads(p.stdout)
    if [v for v in j["violations"] if v["property"] == ctx.prop or v["sig"] == "panic"]:
        print("VIOLATION property=%s replay=%s" % (ctx.prop, path))
        raise SystemExit(1)
    raise SystemExit(0)

"""Checks over the shared-memory protocol (C02 C03 C04 C11 C18): engines sched / stopenum / sweeps
(native, hooked build) and miri (weak memory)."""
import json
import os
import re

from .common import NPROC, Inconclusive, finish, union_hashes

SUM_KEYS = ["scenarios", "inconclusive", "calls", "overlapped_calls", "idle_calls", "nondefault_snapshots",
            "publication_changes_seen", "exception_cases", "err_returns", "odd_entry_calls", "stops", "restarts",
            "after_crash_calls", "steps", "switches", "takeovers", "wipes", "fresh_reader_checks", "c11_observations",
            "other_property_violations"]


def merge_sched(parts):
    out = {k: 0 for k in SUM_KEYS}
    out["max_accesses_per_call"] = 0
    out["stops_by_site"] = {}
    out["starts"] = {}
    out["environments"] = {}
    viol, samples, hashes = [], [], []
    lost = 0
    for p in parts:
        if p is None:
            lost += 1
            continue
        if p.get("_crashed"):
            import signal as _signal
            try:
                name = _signal.Signals(p["_crashed"]).name
            except ValueError:
                name = "signal %d" % p["_crashed"]
            viol.append({"sig": "process-killed-by-" + name, "detail": "the process running the real reader/writer (%s ...) was killed by %s: with a memory-mapped segment this is what clients suffer when the file is truncated or the mapping misused" % (p["_cmd"], name), "replay": ""})
            continue
        for k in SUM_KEYS:
            out[k] += p.get(k, 0)
        out["max_accesses_per_call"] = max(out["max_accesses_per_call"], p.get("max_accesses_per_call", 0))
        for k, v in p.get("stops_by_site", {}).items():
            out["stops_by_site"][k] = out["stops_by_site"].get(k, 0) + v
        for k, v in p.get("starts", {}).items():
            out["starts"][k] = out["starts"].get(k, 0) + v
        for k, v in p.get("environments", {}).items():
            out["environments"][k] = out["environments"].get(k, 0) + v
        viol += p.get("violations", [])
        samples += p.get("samples", [])[:1]
        hashes.append(p.get("_hashes"))
    out["distinct_schedules"] = union_hashes(hashes)
    out["shards_lost"] = lost
    return out, viol, samples


def crash_violations(parts):
    """Violations for shards that were killed by a signal (see common.run_shards)."""
    import signal as _signal
    out = []
    for p in parts:
        if p and p.get("_crashed"):
            try:
                name = _signal.Signals(p["_crashed"]).name
            except ValueError:
                name = "signal %d" % p["_crashed"]
            out.append({"sig": "process-killed-by-" + name, "detail": "the process running the code under test (%s ...) was killed by %s" % (p["_cmd"], name), "replay": ""})
    return out


def shmsim(ctx):
    return ctx.build_harness("shmsim", ["shmsim"], ["hooks"], release=True)["shmsim"]


def run_sched(ctx, binary, focus, count, timeout=5400):
    parts = ctx.run_shards(binary, ["sched", "--focus", focus, "--seed", str(ctx.seed), "--count", str(count), "--signals", "1" if ctx.quick() else "2"], NPROC, timeout)
    return merge_sched(parts)


def run_single(ctx, binary, args, nshards, timeout=1800):
    return ctx.run_shards(binary, args, nshards, timeout)


# ------------------------------------------------------------------ miri
def run_miri(ctx, mode, nprocs, batch, timeout=600):
    """Run nprocs Miri processes, each a batch of scenarios. Returns (agg, violations, lost)."""
    ctx.ensure_ws()
    base = ["cargo", "+nightly", "miri", "run", "-q", "--offline", "-p", "shmsim", "--bin", "shmmiri", "--features", "hooks",
            "--target-dir", os.path.join(ctx.bdir, "miri"), "--"]
    # Build once (first invocation compiles; a failure to build is reported as such).
    p = ctx.cargo(["miri", "run", "-q", "--offline", "-p", "shmsim", "--bin", "shmmiri", "--features", "hooks", "--", "0", "0", mode],
                  "miri", toolchain="+nightly", extra_env={"MIRIFLAGS": "-Zmiri-ignore-leaks"})
    if p.returncode != 0 or "RESULT" not in p.stdout:
        print(p.stdout[-4000:])
        raise Inconclusive("Miri harness did not build or start")
    agg = {"scenarios": 0, "calls": 0, "nondefault_snapshots": 0, "publication_changes_seen": 0, "idle_calls": 0, "stops": 0}
    viol, samples = [], []
    lost = 0
    first = ctx.seed * 100000
    seeds = list(range(first, first + nprocs))
    # Run in waves so that one env (MIRIFLAGS seed) goes with each command.
    import subprocess, time
    running = {}
    todo = list(seeds)
    results = {}
    while todo or running:
        while todo and len(running) < NPROC:
            s = todo.pop(0)
            env = dict(ctx.env)
            env["MIRIFLAGS"] = "-Zmiri-ignore-leaks -Zmiri-seed=%d" % (s % (2 ** 31))
            out = open(os.path.join(ctx.tmp, "miri-%d.out" % s), "w+")
            pr = subprocess.Popen(base + [str(s), str(batch), mode], stdout=out, stderr=subprocess.STDOUT, env=env, cwd=ctx.ws)
            running[s] = (pr, out, time.time())
        done = []
        for s, (pr, out, ts) in running.items():
            rc = pr.poll()
            if rc is not None or time.time() - ts > timeout:
                if rc is None:
                    pr.kill()
                    pr.wait()
                out.seek(0)
                results[s] = (rc, out.read())
                out.close()
                done.append(s)
        for s in done:
            del running[s]
        if not done:
            time.sleep(0.05)
    for s in seeds:
        rc, text = results[s]
        m = re.search(r"^RESULT (.*)$", text, re.M)
        if rc == 0 and m:
            j = json.loads(m.group(1))
            for k in agg:
                agg[k] += j.get(k, 0)
            if len(samples) < 3:
                samples += j.get("samples", [])[:1]
            for v in j.get("violations", []):
                viol.append({"seed": s, "batch": batch, "mode": mode, "scenario": v["scenario"], "text": v["text"]})
        elif rc is not None and rc != 0 and ("Undefined Behavior" in text or "error:" in text):
            # Miri itself reported something (UB, data race, ...): that is an observation, keep it.
            snippet = text[text.find("error"):][:1500]
            viol.append({"seed": s, "batch": batch, "mode": mode, "scenario": -1, "text": "MIRI-REPORT " + snippet})
        else:
            lost += 1
            ctx.log("miri process seed %d inconclusive (rc=%s): %s" % (s, rc, text[-500:]))
    return agg, viol, samples, lost


def miri_violations_for(ctx, viol, prop):
    """Map Miri-engine findings to violation dicts of property `prop` (texts start with the property)."""
    out = []
    for n, v in enumerate(viol):
        t = v["text"]
        if t.startswith("MIRI-REPORT"):
            sig = "miri-report"
        else:
            p, sig = t.split(":")[0].split()[0:2]
            if p in ("C02", "C03") and v["mode"] == "c04":
                p = "C04"
            if p != prop:
                continue
        rp = os.path.join(ctx.replay_dir, "%s-miri-%d-%d.json" % (prop, v["seed"], n))
        with open(rp, "w") as f:
            json.dump({"property": prop, "engine": "miri", "seed": v["seed"], "batch": v["batch"], "mode": v["mode"], "scenario": v["scenario"], "witness": t}, f, indent=1)
        out.append({"sig": sig, "detail": "[miri seed %d] %s" % (v["seed"], t[:600]), "replay": rp})
    return out


def replay(ctx, path):
    j = json.load(open(path))
    if j.get("engine") == "miri":
        ctx.ensure_ws()
        env = {"MIRIFLAGS": "-Zmiri-ignore-leaks -Zmiri-seed=%d" % (j["seed"] % (2 ** 31))}
        p = ctx.cargo(["miri", "run", "-q", "--offline", "-p", "shmsim", "--bin", "shmmiri", "--features", "hooks", "--", str(j["seed"]), str(j["batch"]), j["mode"]],
                      "miri", toolchain="+nightly", extra_env=env)
        print(p.stdout[-3000:])
        m = re.search(r"^RESULT (.*)$", p.stdout, re.M)
        bad = (not m) or json.loads(m.group(1))["violations"]
        if bad:
            print("VIOLATION property=%s replay=%s" % (ctx.prop, path))
            raise SystemExit(1)
        raise SystemExit(0)
    if j.get("engine") == "sched":
        b = shmsim(ctx)
        import subprocess
        p = subprocess.run([b, "replay", "--file", path], stdout=subprocess.PIPE, text=True)
        print(p.stdout[-6000:])
        r = json.loads(p.stdout)
        if [v for v in r["violations"] if v["property"] == ctx.prop]:
            print("VIOLATION property=%s replay=%s" % (ctx.prop, path))
            raise SystemExit(1)
        raise SystemExit(0)
    print("this replay file records a deterministic sweep case; re-run the check itself to reproduce it")
    raise SystemExit(2)


def run_aba(ctx, binary):
    """The generation cycle: a reader stalled inside its copy while exactly c x 32767 publications
    complete (KNOWN_FINDINGS.txt). Returns (violations, stats, samples)."""
    parts = run_single(ctx, binary, ["aba", "--seed", str(ctx.seed)], 4, 1800)
    aba = {"evaluations": 0, "blends_accepted": 0}
    viol = crash_violations(parts)
    samples = []
    for p in parts:
        if p is None or p.get("_crashed"):
            continue
        aba["evaluations"] += p["evaluations"]
        aba["blends_accepted"] += p["blends_accepted"]
        viol += p["violations"]
        samples += p["samples"][:1]
    return viol, aba, samples


# ------------------------------------------------------------------ proc engine
def run_proc(ctx, seconds, nreaders=3, ngroups=4):
    """Real processes, production build (guard off): writers killed with SIGKILL at random instants and
    restarted, readers attached throughout; quiescent comparisons while no writer is alive."""
    import random
    import signal
    import struct
    import subprocess
    import time
    binary = ctx.build_harness("shmsim", ["shmproc"], None, release=True, target="h-shmproc-rel")["shmproc"]
    rng = random.Random(ctx.seed)
    agg = {"kills": 0, "kills_mid_update": 0, "quiescent_checks": 0, "reader_calls": 0, "publication_changes_seen": 0, "restarts": 0, "groups": ngroups, "readers": nreaders * ngroups}
    viol = []
    groups = []
    base = "/dev/shm/cbverif-proc-%d" % os.getpid()
    os.makedirs(base, exist_ok=True)
    try:
        # Each group lives in its own environment: the daemon's file-creation mask, and whether the
        # configured path is a symbolic link to the segment file.
        envs = [(0o022, False), (0o002, False), (0o000, True), (0o077, False), (0o002, True), (0o027, False)]
        agg["environments"] = []
        for g in range(ngroups):
            path = os.path.join(base, "shm%d" % g)
            um, link = envs[(g + ctx.seed) % len(envs)] if g else envs[0]
            if link:
                os.symlink(os.path.join(base, "real%d" % g), path)
            agg["environments"].append("umask%03o%s" % (um, "/symlink" if link else ""))
            readers = [subprocess.Popen([binary, "reader", path, "%d.%d" % (g, r)], stdin=subprocess.PIPE, stdout=subprocess.PIPE, text=True, bufsize=1) for r in range(nreaders)]
            groups.append({"path": path, "readers": readers, "writer": None, "last_answers": [0] * nreaders, "umask": um})
        t_end = time.time() + seconds
        while time.time() < t_end and len(viol) < 20:
            for grp in groups:
                if grp["writer"] is None:
                    grp["writer"] = subprocess.Popen([binary, "writer", grp["path"]], stdout=subprocess.DEVNULL, stderr=subprocess.DEVNULL, umask=grp["umask"])
                    agg["restarts"] += 1
            time.sleep(rng.choice([0.002, 0.005, 0.01, 0.03, 0.08]))
            for grp in groups:
                if rng.random() < 0.6:
                    w = grp["writer"]
                    w.send_signal(signal.SIGKILL)
                    w.wait()
                    grp["writer"] = None
                    agg["kills"] += 1
                    try:
                        b = open(grp["path"], "rb").read()
                    except OSError:
                        continue
                    if len(b) < 72:
                        continue
                    gen = struct.unpack_from("=H", b, 14)[0]
                    words = struct.unpack_from("=7Q", b, 16)
                    if gen % 2:
                        agg["kills_mid_update"] += 1
                    idx = (words[0] - 1) // 8 if words[0] else 0
                    complete = gen != 0 and gen % 2 == 0 and all(words[k] == 8 * idx + k + 1 for k in range(5))
                    # Quiescent: nobody writes. Ask every reader for one snapshot.
                    dead = False
                    for k, r in enumerate(grp["readers"]):
                        try:
                            r.stdin.write("Q\n")
                            r.stdin.flush()
                        except (BrokenPipeError, OSError):
                            dead = True
                    for k, r in enumerate(grp["readers"]):
                        if r.poll() is not None or dead and r.poll() is not None:
                            viol.append({"sig": "reader-process-died", "detail": "reader process %d of group %s died with status %s while attached (a client killed by the daemon's handling of the segment, e.g. SIGBUS after a truncation)" % (k, grp["path"], r.returncode), "replay": ""})
                            continue
                        line = r.stdout.readline().strip()
                        agg["quiescent_checks"] += 1
                        if not line.startswith("A "):
                            viol.append({"sig": "reader-died", "detail": "reader %d of group %s answered %r" % (k, grp["path"], line), "replay": ""})
                            continue
                        a = line[2:]
                        if not a.isdigit():
                            viol.append({"sig": "proc-torn-or-error", "detail": "with no writer alive (generation %d) reader %d returned %s" % (gen, k, a), "replay": ""})
                            continue
                        a = int(a)
                        if a < grp["last_answers"][k]:
                            viol.append({"sig": "proc-went-backwards", "detail": "reader %d returned %d after %d" % (k, a, grp["last_answers"][k]), "replay": ""})
                        if complete and a != idx:
                            # indices carry the generation they were published at (low 16 bits)
                            if 0 < a < idx and (a & 0xFFFF) == gen:
                                agg["exception_cases"] = agg.get("exception_cases", 0) + 1
                            else:
                                viol.append({"sig": "proc-stale-at-quiescence", "detail": "no writer alive, file holds complete publication %d at generation %d, reader %d returned %d" % (idx, gen, k, a), "replay": ""})
                        if not complete and gen % 2 and a > max((w - 1) // 8 for w in words[:5] if w):
                            viol.append({"sig": "proc-unpublished", "detail": "writer killed inside publication %d, reader %d returned %d" % (idx, k, a), "replay": ""})
                        grp["last_answers"][k] = a
        for grp in groups:
            if grp["writer"] is not None:
                grp["writer"].send_signal(signal.SIGKILL)
                grp["writer"].wait()
            for r in grp["readers"]:
                try:
                    r.stdin.write("E\n")
                    r.stdin.flush()
                except (BrokenPipeError, OSError):
                    pass
            for r in grp["readers"]:
                try:
                    out, _ = r.communicate(timeout=20)
                except subprocess.TimeoutExpired:
                    r.kill()
                    viol.append({"sig": "reader-hung", "detail": "a reader process did not finish", "replay": ""})
                    continue
                for line in out.splitlines():
                    if line.startswith("S "):
                        j = json.loads(line[2:])
                        agg["reader_calls"] += j["calls"]
                        agg["reader_error_returns"] = agg.get("reader_error_returns", 0) + j["errors"]
                        agg["publication_changes_seen"] += j["changes"]
                        for v in j["violations"]:
                            kind = v.split(":")[0].split()[1]
                            # (the generation cycle is one finding, whichever engine meets it)
                            viol.append({"sig": kind if kind == "generation-aba-blend" else "proc-" + kind, "detail": v, "replay": ""})
                if r.returncode != 0:
                    viol.append({"sig": "reader-process-died", "detail": "a reader process exited with status %s" % r.returncode, "replay": ""})
    finally:
        import shutil
        for grp in groups:
            for pr in grp["readers"] + ([grp["writer"]] if grp["writer"] else []):
                try:
                    pr.kill()
                except Exception:
                    pass
        shutil.rmtree(base, ignore_errors=True)
    return agg, viol


def single_writer_runs(ctx):
    """The real (hooked) daemon binary receiving signals or losing a worker thread, with the single-writer
    monitor on (count of live ShmWriter objects in the process). Returns (violations, coverage)."""
    import json
    import os
    from . import sandbox
    from .common import VERIF
    viol = []
    sig_cov = {"runs": 0, "published": 0}
    if sandbox.available():
        hooked = os.path.join(ctx.build_repo(["clock-bound-d"], release=False, features=["verif-hooks"]), "clockbound")
        specs = ["", "SIGTERM", "SIGINT", "SIGHUP", "SIGUSR1", "SIGUSR2", "SIGQUIT", "SIGALRM", ":poller.loop:2:panic", ":writer.recv:2:return", "SIGTERM:poller.recv:3:panic",
                 # the polling thread dies while the writer thread is held up (alive, its writer open): whatever the
                 # main thread does on the way out happens next to a live writer
                 "DIE:writer.recv:3:stall2500", "DIE:writer.done:2:stall2500", "SIGTERM:writer.recv:3:stall2500"]
        cmds, outs = [], []
        for i, sp in enumerate(specs):
            o = os.path.join(ctx.tmp, "c02stop-%d.json" % i)
            outs.append(o)
            cmds.append(sandbox.wrap(["python3", os.path.join(VERIF, "vlib", "nsrun.py"), "c02stop", hooked, o, sp]))
        for (rc, text), o in zip(ctx.run_parallel(cmds, 120), outs):
            if rc != 0 or not os.path.exists(o):
                ctx.log("c02stop run lost rc=%s %s" % (rc, text[-200:]))
                continue
            for r in json.load(open(o)):
                sig_cov["runs"] += 1
                sig_cov["published"] += bool(r["published"])
                if r["single_writer_reports"]:
                    viol.append({"sig": "two-writers-in-the-daemon", "detail": "the daemon (signal %s, failpoint %s) had more than one ShmWriter alive at once: %s — the seqlock protocol has exactly one writer; two threads writing the segment can publish a blend under an even generation" % (r["signal"] or "none", r["failpoint"], r["single_writer_reports"][0]), "replay": ""})
    return viol, sig_cov

#!/bin/bash
# Evaluate seeded mutants as sub-agents deliver them, up to $1 (default 5) at a time; one per property at a time
# (tools/seed_eval.py uses one scratch worktree per property). Stop: touch /tmp/seed-loop-stop
cd /verif
N=${1:-5}
mkdir -p /root/seedlogs
while true; do
  for d in /tmp/seed-C*-*; do
    [ -f "$d/patch.diff" ] || continue
    [ -f "$d/notes.md" ] || continue
    n=$(basename $d); n=${n#seed-}
    [ -f /root/seedlogs/$n.log ] && continue
    p=${n%%-*}
    [ -f /root/seedlogs/.busy-$p ] && continue
    while [ $(ls /root/seedlogs/.busy-* 2>/dev/null | wc -l) -ge $N ]; do sleep 5; done
    touch /root/seedlogs/.busy-$p
    echo "=== start $n"
    ( python3 tools/seed_eval.py $d $p > /root/seedlogs/$n.log 2>&1; rm -f /root/seedlogs/.busy-$p; echo "=== done $n: $(grep -E '"confirmed"|"fired"' /root/seedlogs/$n.log | tr -d '\n ')" ) &
  done
  [ -f /tmp/seed-loop-stop ] && break
  sleep 30
done
wait

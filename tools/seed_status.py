#!/usr/bin/env python3
"""Print one line per evaluated seed log in /root/seedlogs (or the given files)."""
import sys, json, glob, os
files = sys.argv[1:] or sorted(glob.glob('/root/seedlogs/*.log'))
for f in files:
    t = open(f).read()
    i = t.find('\n{\n')
    n = os.path.basename(f)[:-4]
    try:
        m = json.loads(t[i:] if i >= 0 else t[t.index('{'):])
    except Exception:
        print(n, 'unparsed', len(t)); continue
    st = 'confirmed' if m.get('confirmed') else 'UNCONF(demo %s/%s tests %s/%s applies %s)' % (m.get('demo_without_patch_exit'), m.get('demo_with_patch_exit'), m.get('tests_passed'), m.get('tests_failed'), m.get('patch_applies'))
    print(n, st, {k: ('FIRED' if v['fired'] else ('INC' if v['inconclusive'] else 'miss')) for k, v in m.get('checks', {}).items()})

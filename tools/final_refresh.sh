#!/bin/bash
# Re-run every quick check at VERIF_SEED=1 on /repo (refreshes evidence/*.json), validate, summarise.
cd /verif
export VERIF_SEED=1
fail=0
for p in C01 C02 C03 C04 C05 C06 C07 C08 C09 C10 C11 C12 C13 C14 C15 C16 C17 C18 C19; do
  out=$(./check $p quick 2>&1); rc=$?
  echo "$p rc=$rc $(echo "$out" | tail -1 | cut -c1-140)"
  [ $rc -ne 0 ] && fail=1 && echo "$out" | tail -20
done
python3-vt - <<'PY'
import json, jsonschema, glob
jsonschema.validate(json.load(open('/verif/MANIFEST.json')), json.load(open('/root/.vp/MANIFEST.schema.json')))
n = 0
for f in sorted(glob.glob('/verif/evidence/C*.json')):
    jsonschema.validate(json.load(open(f)), json.load(open('/root/.vp/EVIDENCE.schema.json')))
    n += 1
print("manifest and %d evidence files valid" % n)
PY
exit $fail

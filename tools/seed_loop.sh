#!/bin/bash
# Evaluate seeded mutants as sub-agents deliver them (sequentially). Stop: touch /tmp/seed-loop-stop
cd /verif
mkdir -p /root/seedlogs
while true; do
  for d in /tmp/seed-C*-*; do
    [ -f "$d/patch.diff" ] || continue
    n=$(basename $d); n=${n#seed-}
    [ -f /root/seedlogs/$n.log ] && continue
    # only once notes.md exists (agent finished writing)
    [ -f "$d/notes.md" ] || continue
    p=${n%%-*}
    echo "=== $n" 
    python3 tools/seed_eval.py $d $p > /root/seedlogs/$n.log 2>&1
    tail -25 /root/seedlogs/$n.log | grep -E '"confirmed"|"fired"|"name"'
  done
  [ -f /tmp/seed-loop-stop ] && break
  sleep 45
done

#!/bin/bash
# usage: tools/recheck_ported.sh <seed-id>...  — seeds whose patch no longer applies because fix 85a2235 rewrote the
# line `bound_nsec += phc_error_bound;` they touch: applied with fuzz, or onto the pre-fix line with the fix's
# saturating addition re-instated in the seed's own code; then the final quick check of the seed's property.
for id in "$@"; do
  p=${id%%-*}; d=/verif/seeded/$id; wt=/root/mut/p-$p
  [ -d $wt ] || git -C /repo worktree add -q --detach $wt HEAD
  git -C $wt checkout -q -- . ; git -C $wt clean -fdq -e target; git -C $wt reset -q --hard $(git -C /repo rev-parse HEAD)
  how=fuzz
  if ! (cd $wt && patch -p1 -F3 -s --no-backup-if-mismatch < $d/patch.diff >/dev/null 2>&1); then
    how=ported
    git -C $wt checkout -q -- . ; git -C $wt clean -fdq -e target
    python3 - $wt/clock-bound-d/src/shm_writer.rs <<'PY'
import sys
p = sys.argv[1]; s = open(p).read()
old = """        // The PHC error bound is whatever the device attribute holds: a sum that does not fit the
        // record's field saturates instead of wrapping into a negative bound.
        bound_nsec = bound_nsec.saturating_add(phc_error_bound);
"""
assert s.count(old) == 1
open(p, "w").write(s.replace(old, "        bound_nsec += phc_error_bound;\n"))
PY
    (cd $wt && patch -p1 -F3 -s --no-backup-if-mismatch < $d/patch.diff >/dev/null 2>&1) || { echo "$id cannot be ported"; continue; }
    sed -i 's/bound_nsec += phc_error_bound;/bound_nsec = bound_nsec.saturating_add(phc_error_bound);/; s/bound_from_tracking(&tracking) + phc_error_bound/bound_from_tracking(\&tracking).saturating_add(phc_error_bound)/' $wt/clock-bound-d/src/shm_writer.rs
  fi
  git -C $wt diff > $d/patch.ported-to-85a2235.diff
  t0=$(date +%s)
  out=$(cd /verif && VERIF_REPO=$wt ./check $p quick 2>&1); rc=$?
  fired=false; echo "$out" | grep -q "VIOLATION property=$p" && fired=true
  first=$(echo "$out" | grep -m1 "violation:" | cut -c1-400)
  python3 - "$d/meta.json" "$fired" "$rc" "$first" "$(( $(date +%s) - t0 ))" "$(git -C /repo rev-parse --short HEAD)" "$(git -C /verif rev-parse --short HEAD)" "$how" <<'PY'
import json, sys
f, fired, rc, first, wall, repo, verif, how = sys.argv[1:]
m = json.load(open(f))
m["final_recheck"] = {"fired": fired == "true", "exit": int(rc), "first_violation": first.strip(), "wall_s": int(wall), "repo_commit": repo, "verif_commit": verif, "tier": "quick",
                      "patch": "patch.ported-to-85a2235.diff (%s: the original touches the line fix 85a2235 rewrote)" % how}
json.dump(m, open(f, "w"), indent=1)
PY
  echo "$id ($how) fired=$fired rc=$rc ${first:0:150}"
  git -C $wt checkout -q -- . ; git -C $wt clean -fdq -e target
done

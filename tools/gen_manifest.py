#!/usr/bin/env python3
"""Regenerates /verif/MANIFEST.json from the table below (kept by hand)."""
import json
import os

V = os.path.dirname(os.path.dirname(os.path.abspath(__file__)))
HOOK_COMMITS = ["57028d8", "4baeb71", "41d2c9e", "f324534", "c051a36", "a4bd12e"]

CHECKS = {
 "C02": ("exploration",
   "The real reader and writer run (a) as threads under Miri, which applies its weak-memory emulation to the orderings written in the repository, with seeded yields at every shared access, and (b) natively under a token scheduler that interleaves at the granularity of single 64-bit words; every snapshot returned is decoded against publication records all of whose words are keyed by the publication index, so a blend is recognised from the value alone. Sampling, not proof: held on the executions observed.",
   "Miri's operational weak-memory model under-approximates C11 (no load buffering); hooked build copies the record as 7 relaxed 64-bit words (H3).",
   "runtime monitoring: Miri weak-memory interpreter + scheduled native executions, history oracle over keyed records", "3.3, 4/C02"),
 "C03": ("exploration",
   "Same engines; oracles: per-reader publication indices never decrease, and a call whose whole window had no update in flight returns the latest completed publication (exemption: slept through a positive multiple of 32767 publications, exercised and counted). Long sequential histories drive readers through 1..98301 skipped publications from arbitrary start generations, across the 16-bit wrap.",
   "Idle windows are decided on the harness' S/P counters at call entry and exit; Miri mode uses SeqCst counters.",
   "runtime monitoring: scheduled executions + long sequential histories + Miri, order/catch-up oracle", "3.3, 4/C03"),
 "C04": ("fault_enumeration",
   "Every hook point of the writer (each shared-memory access of write(), each file operation of start-up and wipe) x every start state of the file (absent, no directory, garbage, wiped, valid even/odd, near wrap) is enumerated as a stop point; the writer is stopped exactly there, restarted on the same file, and readers attached before, during and after are checked for complete records, order, catch-up, and that a valid segment keeps inode and bytes across start-up while an unusable one becomes readable after the first publication. Schedules of the readers are sampled (16/128 per stop point); Miri repeats write-site stops under weak memory.",
   "Crash points are hook sites, not machine instructions; a stop is modelled as unwinding the writer and unmapping (file state kept), as for a killed process.",
   "runtime monitoring with enumerated fault injection (stop at every hook point), history oracle + file-state oracle", "3.3, 4/C04"),
 "C11": ("exploration",
   "Exhaustive over the 65536 values the generation can hold when an update starts: each is poked into a mapped valid segment, one real write() runs, and an independent observer (pread of the file) samples the generation at every hook point: odd while any record word is written, even/non-zero/different afterwards. Chains across the wrap and scheduled histories with stops at every point and restarts carry the per-step invariant over histories.",
   "The third-party reader is modelled by reading the generation bytes of the backing file at each hook point.",
   "runtime monitoring: exhaustive start-value sweep of the real write() with an invariant checked at every hook point", "3.3, 4/C11"),
 "C18": ("exploration",
   "Work per snapshot() is counted in shared-memory accesses by the hooks. Adversaries drive the real retry loop: one or two complete real updates between the copy and the re-check of every retry (reaches the retry cap), writers dead for ever at each of 12 points of an update while the reader is at each of its first 12 accesses (144 pairs), scheduled scenarios with writers that die and never come back. Oracle: accesses <= 5e7 per call, a call entered at an odd generation makes <= 4 accesses and returns its cache, an answer as soon as the writer goes idle.",
   "Bound 5e7 is about 6x what the present retry cap implies, so a different cap is not an alarm while an unbounded loop is.",
   "runtime monitoring: adversarial schedulers in the hook handler, access-count oracle", "3.3, 4/C18"),
}

CHECKS.update({
 "C05": ("exploration",
   "Millions of (record, realtime reading, monotonic reading) vectors, stratified at every boundary the statement names, are published through the real ShmWriter and answered by the real ClockBoundClient::now() under a virtual clock; an exact-integer oracle checks order, exact centring, the half-width window [bound+floor(d*age)-1, bound+ceil(d*age)] and monotone growth along chains. Release and overflow-checked debug builds; a sample also goes through libclockbound (C, ASan+UBSan) and an independent Python exact oracle.",
   "f64 rounding of the drift product tolerated at 2^-50 relative; +-68 years, bounds < 2^60.",
   "runtime monitoring: input sweep of the public now() under an interposed clock, exact reference oracle", "3.2, 4/C05"),
 "C06": ("exploration",
   "Same rig; all (stored status x region x edge offset x void-after kind) cells, readings at -1/0/+1 ns around as_of, as_of+5 s, void_after and the blur edge; oracle is the decision table of the statement.",
   "Records with void_after >= as_of + 5 s only, as the statement says.",
   "runtime monitoring: boundary-value sweep of now() under an interposed clock, decision-table oracle", "4/C06"),
 "C14": ("exploration",
   "Same rig; readings at -2..+2 ns around as_of minus the blur, deep breaches, range extremes, drift at and beyond 1e9; every call under catch_unwind in release and overflow-checked debug builds, so a panic or overflow is an observed outcome; error kinds compared with the statement; Rust and C answers compared.",
   "Blur is 1000 ns as implemented; exactly at the edge either answer is accepted.",
   "runtime monitoring: edge sweep of now() with panic/overflow detection (debug overflow checks, catch_unwind, ASan/UBSan on the C side)", "4/C14"),
 "C16": ("exploration",
   "A corpus of segment files (every truncation length 0..80, every header field at edge values, flipped magic bytes, two-defect files, random bytes, path kinds) is opened through ClockBoundClient, ShmReader and clockbound_open (ASan+UBSan; thorough: valgrind) and each outcome compared with the decision table of the statement; then the real ShmWriter starts up and publishes over each file on tmpfs and on ext4, and new clients read back (A) while the writer lives and (B) after it is gone and the page cache was dropped; re-created files are decoded with PROTOCOL.md offsets.",
   "Runs as root (no permission errors); FIFOs excluded; eviction by fsync + posix_fadvise(DONTNEED).",
   "runtime monitoring: hostile-input corpus through three APIs + sanitizers/valgrind, decision-table oracle, post-crash read-back with page-cache eviction", "4/C16"),
 "C17": ("exploration",
   "Bytes written by the real ShmWriter are decoded with offsets transcribed by hand from docs/PROTOCOL.md and compared with the published fields; a C program compiled from clockbound.h alone, linked with libclockbound.a (ASan+UBSan, canaries) and libclockbound.so, answers the same vectors as the Rust client at the same frozen virtual instant and must agree on interval, status, error kind, errno and detail; all failing open conditions compared across the three APIs; thorough adds valgrind.",
   "Little-endian x86-64 only; the magic's documented hex string is accepted under any of the three readings the document admits and the reading found is reported.",
   "runtime monitoring: differential execution Rust client vs C ABI under sanitizers, hand-transcribed layout decoder", "4/C17"),
})

CHECKS.update({
 "C07": ("exploration",
   "Chrony Tracking replies are built as wire bytes with chosen 32-bit patterns in the float fields (all exponents of the meaningful range x edge/random coefficients x both offset signs, sub-ns, near-integer-ns, realistic magnitudes, PHC bounds), deserialised by chrony-candm, processed by the real ShmUpdater on its own thread and published through the real ShmWriter; every published bound is judged by an exact rational evaluation of the README formula on the decoded wire values (Python fractions).",
   "Chrony float layout transcribed independently; lower tolerance 2^-50 relative (f64 rounding), upper ceil(E)+1; |values| < 2^30 s.",
   "runtime monitoring: wire-level input sweep through the real pipeline, exact-arithmetic reference oracle", "4/C07"),
 "C08": ("exploration",
   "All sequences up to length 3/4 over the 9 poll-outcome kinds plus random sequences up to length 60 are sent one message at a time to the real process_messages/ShmUpdater/FSM over a tee sink and the real ShmWriter; after each message: exactly one publication, generation +2, record equal to a 20-line reference model, read back through a fresh and an attached reader.",
   "Expected bounds use dyadic wire values (exact in integers).",
   "runtime monitoring: enumerated + random histories against an executable reference model", "4/C08"),
 "C09": ("exploration",
   "Every prefix of non-synchronised outcomes up to length 3/5 (and random longer ones), on a fresh daemon and on a daemon restarted over a previous incarnation's segment: each published record must say Unknown and a real client evaluated at uptimes from 1 s to 1e6 s must report Unknown.",
   "Client evaluated under the interposed clock.",
   "runtime monitoring: enumerated histories, invariant on published records and on client answers", "4/C09"),
 "C10": ("exploration",
   "All 65536 leap-status values, and every combination of interesting leap values x 9 update intervals x ages on both sides of 'now', of floor(8*interval) s and of the exact 8*interval threshold (+-1 ns) x 3 FSM start states, are classified by the real pipeline under a virtual SystemTime; oracle is the statement's table in exact arithmetic; the truncation sliver is accepted either way and counted.",
   "Ages exact through the interposed CLOCK_REALTIME.",
   "runtime monitoring: exhaustive (leap) and boundary-value sweep through the real pipeline, decision-table oracle", "4/C10"),
})

CHECKS.update({
 "C01": ("exploration",
   "A virtual-time world in exact integer arithmetic (true time, a system clock drifting within the configured maximum and adversarially at it, a chronyd whose wire values are valid by construction and tight half of the time) drives in lock-step the real poller loop, the real ShmUpdater/FSM on its own thread, the real ShmWriter on a tmpfs file and real ClockBoundClients, through synchronisation losses, outages to 1200 s and daemon restarts; every trusted answer is checked to contain true time at the instant the realtime clock was read (tolerance 2 ns, + drift x tick with a coarse clock).",
   "No clock steps; ideal monotonic clock; chronyd mocked at the ChronyOperations boundary (real socket path under C13).",
   "runtime monitoring: simulation-driven execution of the real pipeline under an interposed clock, containment oracle on every client answer", "3.2, 4/C01"),
 "C12": ("exploration",
   "C01's world with delays of up to 30 s injected around chronyd's sampling instant and up to 2 s between the client's two clock reads, at maximum drift; monitors on the interposer's read log: as_of is a monotonic reading taken before the request was issued, now() reads realtime first then monotonic (also through the C ABI), a delay never shrinks the half-width, and containment still holds.",
   "Delays are virtual time; the real code runs unmodified.",
   "runtime monitoring: event-order monitor over the clock-read log + delay injection + containment oracle", "4/C12"),
 "C13": ("exploration",
   "Three layers: (1) mock level in C01's world, PHC always configured: message class per poll against the model, PHC bound attached iff reference ids match, published measurement frozen on PHC failure; (2) the real ClockErrorBoundPoller over a real unix datagram socket to a scripted in-process chronyd inside a private mount namespace, virtual Instant, failures placed at 5 s -1/0/+1 ns after the last good answer, at start-up, after long gaps; (3) the release clockbound binary with a chronyd stand-in in real time, status timeline of the real segment.",
   "Layer 3 is judged only away from expected transitions (real time).",
   "runtime monitoring: scripted fault schedules against the real poller (virtual time) and the real daemon (real time), reference-model oracle", "4/C13"),
 "C15": ("fault_enumeration",
   "Every failpoint of both worker loops and their start-up (9 sites) x {panic, return} x hit count x chronyd mode (absent, answering, silent) is injected into the hooked clockbound binary in its own mount namespace, plus natural faults on the release binary (segment path is a directory, PHC file unparsable at start or later); the time from the fault to process exit is measured and must stay under 15 s.",
   "Wall-clock verdict by the nature of the property; failpoints are the hook sites.",
   "runtime monitoring with enumerated fault injection into the real daemon process, exit-latency oracle", "4/C15"),
 "C19": ("exploration",
   "The release clockbound binary (guard off) is started in a private /run for each of a few hundred (thorough: thousands) --max-drift-rate values including every wrap boundary; the published max-drift field is read at the PROTOCOL.md offset or the refusal is observed.",
   "2^32 values sampled, all wrap boundaries hit; no chronyd needed for the first publication.",
   "runtime monitoring: black-box runs of the shipped binary in a sandbox, exact-value oracle", "4/C19"),
})

NOT_YET = {}

# What rounds 3 and 4 of the seeded changes added to every workload that can carry it (DESIGN.md B.6, B.7).
EXTRA = {
 "C01": " Histories also contain machine reboots over a surviving segment, suspends, short reads of the PHC attribute, a lagging coarse realtime clock; the real ShmWriter is the sink (publications seen through the file).",
 "C02": " Also: a new incarnation over a half-written segment stopped after 0..3 outcomes; the hooked daemon under signals and worker deaths with the single-writer monitor; threads with own contexts in a C client on a continuously updated keyed segment; scenario environments (umask, file mode/owner/mtime, symlink, hard link), hostile errno and signals.",
 "C03": " Also: a context opened by main() and used by other threads after each publication (C client); 4-20 million idle calls before a publication; scenario environments; hostile errno and signals.",
 "C04": " Also: scenario environments (umask, mode, owner, mtime, symlink, hard link of the pre-existing file); a waiting client retrying its attach under a descriptor limit and beyond vm.max_map_count.",
 "C05": " Also: clocks of other semantics (BOOTTIME ahead, coarse realtime lagging), hostile errno/signals/unwritable stderr, 1.3 million identical answers in a row, contexts opened while mmap fails or after the file was replaced, six threads with their own clients, the C library built on its own.",
 "C06": " Also: clocks of other semantics, hostile caller state, long streaks, contexts (file replaced under a live context, mmap failing at open, a context opened at an odd generation after another context read a trusted record).",
 "C07": " Also: the real poller with PHC reads failing (transient / throughout / 340 polls in a row) and arriving in pieces; the release binary with reference-id names of every spelling.",
 "C08": " Also: suspends, wall clock at time-of-day edges and ticking per read, leap 1/2 reports, report-field noise, a tracing subscriber; 7300-outcome lives of the daemon's own writer-thread entry point; the real poller's dropped reports; whole-binary timelines with the segment directory provisioned late.",
 "C09": " Also: suspends, ticking wall clock with edge reports first, tracing subscriber installed on odd shards.",
 "C10": " Also: every time of day incl. the last second of a UTC day, random values in unused report fields, the PHC bound attached to the report varying.",
 "C11": " Also: scenario environments (umask, mode, owner, mtime, symlink, hard link).",
 "C12": " Also: late (real seconds), wrong-sequence, truncated and other-version replies, reply values differing per poll.",
 "C13": " Also: suspends, unusable replies, PHC read failures, lives of 3600/3601/7200 polls before chronyd falls silent, reference-id names of every spelling with the attribute absent.",
 "C14": " Also: hostile errno (work meter: clock reads and sleeps per call), signals, unwritable stderr, 1.3 million identical answers in a row, two threads failing with different error kinds at once (C client).",
 "C15": " Also: the segment locked by another process, unusable chronyd replies with the writer dying at start-up, a segment directory without a free block, (thorough) a worker stalled for 140 s.",
 "C16": " Also: pre-existing file modes and daemon umasks, 67 530 opens per file through both libraries, 200 simultaneous unprivileged contexts, write() failing while the segment is created, clients whose real and effective uid differ, threads cycling open/now/close (C client).",
 "C17": " Also: odd path spellings incl. non-UTF-8 bytes, repeated-open parity, write failures during creation, clockbound_open(path, NULL).",
 "C18": " Also: the daemon as a separate process stalled alive at every hook point (client thread judged by /proc task state), signals + work meter (sleeps), a standard error that blocks, forked children using an inherited context while another thread is inside a call.",
 "C19": " Also: other spellings of the rate, whole-life runs with signals and a refusing chronyd sampled every 10 ms, thread-spawn delays through strace injection, 7300-outcome lives of the writer thread (drift field of every record).",
}

# What round 5 added (DESIGN.md B.9).
EXTRA5 = {
 "C03": " Round 5: a reader attached before the header is damaged in place and the daemon restarted over it through the re-initialisation path (6 kinds of damage x 3 generations).",
 "C04": " Round 5: the release binary killed and restarted over its own segment under a client attached all along, file timestamps from 20 years ago to the future (inode, size and the old mapping watched).",
 "C07": " Round 5: PHC error bounds up to i64::MAX (the sum saturates: fix 85a2235), outage messages between the reports of the sweep.",
 "C08": " Round 5: PHC bounds the field cannot hold; failed polls handed on as measurements and reports altered by the poller (real-poller layer).",
 "C09": " Round 5: restart over a segment that holds only the placeholder record, the real ShmWriter as the sink; PHC bounds the field cannot hold as first report.",
 "C10": " Round 5: the real poller over a real socket, every reply different from its neighbours in every classified field (leap, reference time, interval incl. 0 after non-zero, offset, delay, dispersion); the report handed to the writer is compared with the wire field by field.",
 "C11": " Round 5: the single-writer monitor on the whole daemon (signals, worker deaths, the polling thread dying while the writer thread is held up).",
 "C13": " Round 5: a PHC attribute that reads back without a value (empty, newline, blanks, not a number) through the release binary.",
 "C15": " Round 5: chronyd quick, then persistently slow, then the writer dies at a given time (failpoint action panicafter).",
 "C16": " Round 5: permission errors through an unprivileged client (EACCES; read-only segments must open), a FIFO fed by a writer, header images inside the record area of files with an unusable header, a fresh open at every point of an update around the generation wrap.",
 "C17": " Round 5: two threads with their own contexts failing with different error kinds at the same time.",
 "C18": " Round 5: the segment re-initialised in place under a reader that is inside its copy; the segment file removed and created anew (never initialised) under a long-lived Rust and C client.",
 "C19": " Round 5: lives in which a worker thread dies on an indigestible chronyd reply, the drift field sampled through the wind-down.",
}


def main():
    props = [json.loads(l)["id"] for l in open(os.path.join(V, "properties.jsonl"))]
    checks = []
    for pid in props:
        if pid not in CHECKS:
            continue
        level, text, note, tech, ref = CHECKS[pid]
        text = text + EXTRA.get(pid, "") + EXTRA5.get(pid, "")
        ref = ref + ", B.6, B.7, B.9"
        checks.append({
            "property_id": pid,
            "quick_cmd": "./check %s quick" % pid,
            "thorough_cmd": "./check %s thorough" % pid,
            "evidence_file": "/verif/evidence/%s.json" % pid,
            "replay_cmd_template": "./check %s quick --replay {path}" % pid,
            "engine": "harness",
            "level_claimed": {"category": level, "text": text, "design_ref": "DESIGN.md " + ref},
            "level_note": note,
            "technique": tech,
        })
    na = [{"property_id": p, "reason": NOT_YET.get(p, "check not built yet (work in progress; see DESIGN.md for the planned monitor)")} for p in props if p not in CHECKS]
    m = {
        "version": 1,
        "setup_cmd": "./check setup quick",
        "hooks": {
            "guard": "cargo feature verif-hooks (clock-bound-shm, clock-bound-d); off by default",
            "enable": "harness crates depend on the repository crates with features=[\"verif-hooks\"]; `cargo build -p clock-bound-d --features verif-hooks` for the hooked daemon binary",
            "baseline_off_cmd": "cd /repo && cargo test --workspace --no-fail-fast --offline",
            "source_commits": HOOK_COMMITS,
            "add_only": True,
        },
        "engines": [
            {"name": "clientsim", "path": "harness/clientsim + harness/cdriver", "serves_properties": ["C05", "C06", "C14", "C16", "C17"], "kind_free_text": "vector sweeps through real writer/segment/client under an interposed clock; C driver against libclockbound with ASan/UBSan/valgrind"},
            {"name": "daemonsim", "path": "harness/daemonsim", "serves_properties": ["C01", "C07", "C08", "C09", "C10", "C12", "C13"], "kind_free_text": "real process_messages/ShmUpdater/FSM and poller loop on their own threads over real channels, ShmWriter, readers and clients, under a per-thread virtual clock"},
            {"name": "procbox", "path": "vlib/nsrun.py + vlib/sandbox.py", "serves_properties": ["C13", "C15", "C17", "C19"], "kind_free_text": "the real clockbound binary in a private mount namespace (tmpfs on /run, optionally /sys), chronyd stand-in speaking the chrony protocol, failpoint plans"},
            {"name": "shmsim", "path": "harness/shmsim", "serves_properties": ["C02", "C03", "C04", "C11", "C18"], "kind_free_text": "token scheduler over the hooked reader/writer, stop enumeration, sequential sweeps, Miri binary"},
        ],
        "checks": checks,
        "not_applicable": na,
        "notes": "All checks: ./check <id> quick|thorough, seed from VERIF_SEED. Known findings: KNOWN_FINDINGS.txt. Design and results: DESIGN.md.",
    }
    with open(os.path.join(V, "MANIFEST.json"), "w") as f:
        json.dump(m, f, indent=1)
    print("MANIFEST.json: %d checks, %d not claimed" % (len(checks), len(na)))


if __name__ == "__main__":
    main()

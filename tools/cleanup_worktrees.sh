#!/bin/bash
# Remove every scratch worktree of /repo (and its build output) and the shared stash entries left by sub-agents.
for d in $(git -C /repo worktree list --porcelain | awk '/^worktree /{print $2}' | grep -v '^/repo$'); do
  git -C /repo worktree remove --force "$d" && echo "removed $d"
done
git -C /repo worktree prune
git -C /repo stash clear
rm -rf /root/mut /tmp/wt-C* /tmp/wt2-C* /root/mut/*-target*
git -C /repo status --short | head

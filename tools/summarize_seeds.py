#!/usr/bin/env python3
"""Writes /verif/seeded/SUMMARY.md from seeded/*/meta.json and seeded/planted_results.jsonl."""
import glob
import json
import os

V = os.path.dirname(os.path.dirname(os.path.abspath(__file__)))
out = ["# Seeded and planted changes: which check catches which", "",
       "## Changes written by independent sub-agents (given only the property text)", "",
       "| seed | breaks | confirmed (tests pass, demo fails with / passes without) | check | fired | first violation reported |", "|---|---|---|---|---|---|"]
for mf in sorted(glob.glob(os.path.join(V, "seeded", "*", "meta.json"))):
    m = json.load(open(mf))
    for pid, c in m.get("checks", {}).items():
        out.append("| %s | %s | %s | ./check %s %s | %s | %s |" % (m["name"], m["breaks"], "yes" if m.get("confirmed") else "NO", pid, c.get("tier", "quick"),
                   "**yes**" if c["fired"] else ("inconclusive" if c.get("inconclusive") else "**NO**"), (c.get("first_violation") or "").replace("|", "/")[:160]))
    fr = m.get("final_recheck")
    if fr:
        out.append("| %s | %s | (as above) | ./check %s %s, final checks (verif %s, repo %s) | %s | %s |" % (m["name"], m["breaks"], m["breaks"], fr.get("tier", "quick"), fr.get("verif_commit"), fr.get("repo_commit"),
                   "**yes**" if fr["fired"] else ("inconclusive" if fr.get("exit") == 3 else "**NO**"), (fr.get("first_violation") or "").replace("|", "/")[:160]))
out += ["", "## Planted breaks (tools/planted.py; one small semantic edit each)", "",
        "| name | tests still pass | expected | result |", "|---|---|---|---|"]
pr = os.path.join(V, "seeded", "planted_results.jsonl")
last = {}
if os.path.exists(pr):
    for l in open(pr):
        r = json.loads(l)
        last[r["name"]] = r
for name, r in last.items():
    if not r["compiles"]:
        res = "does not compile / tests not run"
    elif r["tests_failed"]:
        res = "rejected: %d repository tests fail" % r["tests_failed"]
    else:
        parts = []
        for pid, c in r["checks"].items():
            if c["control"]:
                parts.append("%s: %s (control, must stay silent)" % (pid, "FIRED (false alarm!)" if c["fired"] else "silent"))
            else:
                parts.append("%s: %s" % (pid, "fired" if c["fired"] else ("inconclusive" if c["inconclusive"] else "MISSED")))
        res = "; ".join(parts)
    out.append("| %s | %s | %s | %s |" % (name, "yes" if (r["compiles"] and not r["tests_failed"]) else "no", ", ".join(r["expected"]), res))
open(os.path.join(V, "seeded", "SUMMARY.md"), "w").write("\n".join(out) + "\n")
print("\n".join(out[-12:]))

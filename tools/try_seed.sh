#!/bin/bash
# usage: tools/try_seed.sh <seed-dir> <property> [tier]  — apply a seeded patch in a scratch worktree and run one check on it
set -u
seed=$1; prop=$2; tier=${3:-quick}
wt=/root/mut/dev-$prop
if [ ! -d $wt ]; then git -C /repo worktree add -q --detach $wt HEAD; fi
git -C $wt checkout -q -- . ; git -C $wt clean -fdq -e target; git -C $wt reset -q --hard $(git -C /repo rev-parse HEAD)
git -C $wt apply $seed/patch.diff || { echo "patch does not apply"; exit 2; }
cd /verif && VERIF_REPO=$wt ./check $prop $tier 2>&1 | grep -E "^C[0-9]+ |VIOLATION|INCONCLUSIVE|violation:" | cut -c1-400 | head -8
git -C $wt checkout -q -- . ; git -C $wt clean -fdq -e target

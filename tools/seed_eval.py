#!/usr/bin/env python3
"""Confirm a seeded change produced by an independent sub-agent and run our checks against it.

usage: tools/seed_eval.py <seed-dir> <property> [extra properties ...]

Steps (all in a scratch worktree of /repo, never in /repo itself):
  1. the patch applies to HEAD, the workspace builds (also with verif-hooks) and the repository's tests pass;
  2. the demonstration fails with the patch and passes without it;
  3. ./check <property> quick (VERIF_REPO=<worktree>) — does it fire?
The seed is then stored as /verif/seeded/<name>/ (patch.diff, demo/, notes.md, meta.json)."""
import json
import os
import shutil
import subprocess
import sys
import time

V = os.path.dirname(os.path.dirname(os.path.abspath(__file__)))


def sh(cmd, timeout=3600, **kw):
    try:
        return subprocess.run(cmd, shell=True, stdout=subprocess.PIPE, stderr=subprocess.STDOUT, text=True, timeout=timeout, **kw)
    except subprocess.TimeoutExpired as e:
        class R:
            returncode = 124
            stdout = (e.stdout or b"").decode(errors="replace") if isinstance(e.stdout, bytes) else (e.stdout or "")
        return R()


def main():
    seed = os.path.abspath(sys.argv[1])
    props = sys.argv[2:]
    name = os.path.basename(seed).replace("seed-", "")
    tier = os.environ.get("SEED_TIER", "quick")
    wt = "/root/mut/s-" + props[0]
    if not os.path.isdir(wt):
        os.makedirs(os.path.dirname(wt), exist_ok=True)
        print(sh("git -C /repo worktree add -q --detach %s HEAD" % wt).stdout)
    sh("git -C %s checkout -q -- . && git -C %s clean -fdq -e target && git -C %s reset -q --hard $(git -C /repo rev-parse HEAD)" % (wt, wt, wt))
    meta = {"name": name, "breaks": props[0], "also_checked": props[1:], "source": "independent sub-agent given only the property text", "at_repo_commit": sh("git -C /repo rev-parse --short HEAD").stdout.strip()}
    patch = os.path.join(seed, "patch.diff")
    run_sh = os.path.join(seed, "demo", "run.sh")
    tgt = "/root/mut/s-target-" + props[0]
    env = "CARGO_NET_OFFLINE=true CARGO_TARGET_DIR=%s" % tgt
    # demo on the unchanged tree first
    if os.path.exists(run_sh):
        r0 = sh("cd %s && %s bash %s %s" % (os.path.dirname(run_sh), env, run_sh, wt), timeout=1800)
        meta["demo_without_patch_exit"] = r0.returncode
        sh("git -C %s checkout -q -- . && git -C %s clean -fdq -e target" % (wt, wt))
    else:
        meta["demo_without_patch_exit"] = None
    a = sh("git -C %s apply %s" % (wt, patch))
    if a.returncode != 0:
        # the seed was made against an earlier HEAD (hook commits since): three-way merge
        a = sh("git -C %s apply --3way %s && git -C %s reset -q" % (wt, patch, wt))
        meta["applied_by_three_way_merge"] = a.returncode == 0
    meta["patch_applies"] = a.returncode == 0
    if a.returncode != 0:
        print("patch does not apply:", a.stdout[-500:])
        meta["kept"] = False
        print(json.dumps(meta, indent=1))
        return 1
    t = sh("cd %s && %s timeout 900 cargo test --workspace --no-fail-fast --offline 2>&1 | grep -E '^test result|^error'" % (wt, env))
    passed = sum(int(l.split()[3]) for l in t.stdout.splitlines() if l.startswith("test result"))
    failed = sum(int(l.split()[5]) for l in t.stdout.splitlines() if l.startswith("test result"))
    meta["tests_passed"], meta["tests_failed"] = passed, failed
    hb = sh("cd %s && %s cargo build -p clock-bound-d -p clock-bound-shm --features clock-bound-d/verif-hooks --offline 2>&1 | tail -3" % (wt, env))
    meta["builds_with_hooks"] = hb.returncode == 0 and "error" not in hb.stdout
    if os.path.exists(run_sh):
        r1 = sh("cd %s && %s bash %s %s" % (os.path.dirname(run_sh), env, run_sh, wt), timeout=1800)
        meta["demo_with_patch_exit"] = r1.returncode
        meta["demo_with_patch_tail"] = r1.stdout[-400:]
        # the demo may have left files: restore everything but the patch
        sh("git -C %s checkout -q -- . && git -C %s clean -fdq -e target && (git -C %s apply %s || (git -C %s apply --3way %s && git -C %s reset -q))" % (wt, wt, wt, patch, wt, patch, wt))
    else:
        meta["demo_with_patch_exit"] = None
    confirmed = meta["patch_applies"] and passed >= 55 and failed == 0 and meta["demo_with_patch_exit"] not in (0, None) and meta["demo_without_patch_exit"] == 0
    meta["confirmed"] = confirmed
    meta["checks"] = {}
    for p in props:
        t0 = time.time()
        r = sh("cd %s && VERIF_REPO=%s ./check %s %s" % (V, wt, p, tier), timeout=5400)
        fired = ("VIOLATION property=%s" % p) in r.stdout
        first = next((l.strip() for l in r.stdout.splitlines() if l.strip().startswith("violation:")), "")
        meta["checks"][p] = {"tier": tier, "fired": fired, "exit": r.returncode, "inconclusive": "INCONCLUSIVE" in r.stdout, "first_violation": first[:400], "wall_s": round(time.time() - t0, 1)}
    notes = os.path.join(seed, "notes.md")
    meta["what_it_needs"] = ""
    if os.path.exists(notes):
        txt = open(notes).read()
        meta["notes_excerpt"] = txt[:1200]
    dest = os.path.join(V, "seeded", name)
    if confirmed:
        shutil.rmtree(dest, ignore_errors=True)
        os.makedirs(dest)
        shutil.copy(patch, os.path.join(dest, "patch.diff"))
        if os.path.isdir(os.path.join(seed, "demo")):
            shutil.copytree(os.path.join(seed, "demo"), os.path.join(dest, "demo"))
        if os.path.exists(notes):
            shutil.copy(notes, os.path.join(dest, "notes.md"))
        meta["what_we_ran"] = "tools/seed_eval.py: git apply in a scratch worktree; cargo test --workspace (55+1 pass); demo/run.sh fails with the patch, passes without; ./check <id> %s with VERIF_REPO=<worktree>" % tier
        json.dump(meta, open(os.path.join(dest, "meta.json"), "w"), indent=1)
    sh("git -C %s checkout -q -- . && git -C %s clean -fdq -e target" % (wt, wt))
    print(json.dumps({k: v for k, v in meta.items() if k not in ("notes_excerpt", "demo_with_patch_tail")}, indent=1))
    return 0


if __name__ == "__main__":
    sys.exit(main())

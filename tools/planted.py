#!/usr/bin/env python3
"""Planted-break campaign (DESIGN.md section 6.2): apply one small semantic edit at a time to a scratch
worktree of /repo, confirm it still builds and passes the repository's tests, run the quick check of
the property it targets with VERIF_REPO pointing at the worktree, and record whether the check fires.

usage: tools/planted.py [name-substring ...]      results appended to /verif/seeded/planted_results.jsonl
"""
import json
import os
import subprocess
import sys
import time

V = os.path.dirname(os.path.dirname(os.path.abspath(__file__)))
WT = "/root/mut/p"

SHM = "clock-bound-shm/src/"
D = "clock-bound-d/src/"
# (name, properties expected to fire, file, old, new)   "control" = must stay silent
M = [
 # ---- C02
 ("c02-no-writer-fence", ["C02"], SHM + "writer.rs", "            atomic::fence(atomic::Ordering::Release);\n", ""),
 ("c02-no-reader-fence", ["C02"], SHM + "reader.rs", "            atomic::fence(atomic::Ordering::Acquire);\n", ""),
 ("c02-final-store-relaxed", ["C02"], SHM + "writer.rs", "                gen = 2\n            }\n\n            generation.store(gen, atomic::Ordering::Release);", "                gen = 2\n            }\n\n            generation.store(gen, atomic::Ordering::Relaxed);"),
 ("c02-first-load-relaxed", ["C02"], SHM + "reader.rs", "let mut first_gen = generation.load(atomic::Ordering::Acquire);", "let mut first_gen = generation.load(atomic::Ordering::Relaxed);"),
 ("c02-drop-odd-store", ["C02", "C11"], SHM + "writer.rs", "            generation.store(gen, atomic::Ordering::Release);\n\n            // The store above", "            // The store above"),
 ("c02-copy-before-odd-store", ["C02", "C11"], SHM + "writer.rs", "            let generation = &*self.generation;\n            let gen = generation.load", "            self.ceb.write(*ceb);\n            let generation = &*self.generation;\n            let gen = generation.load"),
 ("c02-accept-without-recheck", ["C02"], SHM + "reader.rs", "            if first_gen == second_gen {", "            if first_gen == second_gen || second_gen & 0x0001 == 0 {"),
 ("c02-accept-odd", ["C02"], SHM + "reader.rs", "        if first_gen & 0x0001 == 1 {\n            return Ok(&self.snapshot_ceb);\n        }\n", ""),
 # ---- C03
 ("c03-cache-when-newer-even", ["C03"], SHM + "reader.rs", "        if first_gen == self.snapshot_gen {", "        if first_gen == self.snapshot_gen || first_gen.wrapping_sub(self.snapshot_gen) == 2 {"),
 ("c03-snapshot-gen-not-updated", ["C03"], SHM + "reader.rs", "                self.snapshot_gen = first_gen;\n", ""),
 ("c03-wrap-to-zero", ["C03", "C11", "C04"], SHM + "writer.rs", "            if gen == 0 {\n                gen = 2\n            }\n", ""),
 ("c03-gen-le-cache", ["C03"], SHM + "reader.rs", "        if first_gen == self.snapshot_gen {", "        if first_gen <= self.snapshot_gen {"),
 # ---- C04
 ("c04-double-increment-from-odd", ["C04", "C11"], SHM + "writer.rs", "            } else {\n                gen\n            };", "            } else {\n                gen.wrapping_add(1)\n            };"),
 ("c04-wipe-on-every-start", ["C04"], SHM + "writer.rs", "        if ShmWriter::is_usable_segment(path).is_err() {", "        if ShmWriter::is_usable_segment(path).is_err() || true {"),
 ("c04-reader-not-caching-on-gen0", ["C04"], SHM + "reader.rs", "        if first_gen == 0 {\n            return Ok(&self.snapshot_ceb);\n        }\n", ""),
 ("c04-usable-inverted", ["C04", "C16"], SHM + "writer.rs", "        if ShmWriter::is_usable_segment(path).is_err() {", "        if ShmWriter::is_usable_segment(path).is_ok() {"),
 ("c04-version-store-zero-first", ["C04"], SHM + "writer.rs", "            version.store(1_u16, atomic::Ordering::Relaxed);\n        }\n\n        #[cfg", "            version.store(0_u16, atomic::Ordering::Relaxed);\n            version.store(1_u16, atomic::Ordering::Relaxed);\n        }\n\n        #[cfg"),
 # ---- C05
 ("c05-earliest-plus", ["C05"], SHM + "lib.rs", "let earliest = real - updated_bound;", "let earliest = real + updated_bound;"),
 ("c05-inflate-with-real", ["C05", "C01"], SHM + "lib.rs", "            mono - as_of\n        } else if mono > causality_blur", "            real - as_of\n        } else if mono > causality_blur"),
 ("c05-no-div-1e9", ["C05"], SHM + "lib.rs", "duration.num_nanoseconds() as f64 / 1_000_000_000_f64;", "duration.num_nanoseconds() as f64 / 1_000_000_f64;"),
 ("c05-control-round", ["control:C05"], SHM + "lib.rs", "(duration_sec * self.max_drift_ppb as f64) as i64", "(duration_sec * self.max_drift_ppb as f64).round() as i64"),
 ("c05-drift-times-sec-only", ["C05", "C01"], SHM + "lib.rs", "let duration_sec = duration.num_nanoseconds() as f64 / 1_000_000_000_f64;", "let duration_sec = duration.num_seconds() as f64;"),
 # ---- C06
 ("c06-grace-le", ["C06"], SHM + "lib.rs", "if mono < as_of + CLOCKBOUND_RESTART_GRACE_PERIOD {", "if mono <= as_of + CLOCKBOUND_RESTART_GRACE_PERIOD {"),
 ("c06-void-le", ["control:C06"], SHM + "lib.rs", "} else if mono < void_after {", "} else if mono <= void_after {"),
 ("c06-grace-50s", ["C06"], SHM + "lib.rs", "const CLOCKBOUND_RESTART_GRACE_PERIOD: TimeSpec = TimeSpec::new(5, 0);", "const CLOCKBOUND_RESTART_GRACE_PERIOD: TimeSpec = TimeSpec::new(50, 0);"),
 ("c06-freerunning-arm-stored", ["C06"], SHM + "lib.rs", "                    // Beyond the grace period, for a free running status.\n                    ClockStatus::FreeRunning", "                    // Beyond the grace period, for a free running status.\n                    self.clock_status"),
 # ---- C07
 ("c07-no-abs", ["C07", "C01"], D + "shm_writer.rs", "current_correction.abs()", "current_correction"),
 ("c07-floor", ["C07"], D + "shm_writer.rs", "        * 1_000_000_000.0)\n        .ceil() as i64;", "        * 1_000_000_000.0)\n        .floor() as i64;"),
 ("c07-delay-not-halved", ["C07"], D + "shm_writer.rs", "(root_delay / 2. + root_dispersion", "(root_delay + root_dispersion"),
 ("c07-delay-quarter", ["C07", "C01"], D + "shm_writer.rs", "(root_delay / 2. + root_dispersion", "(root_delay / 4. + root_dispersion"),
 ("c07-no-dispersion", ["C07", "C01"], D + "shm_writer.rs", "(root_delay / 2. + root_dispersion + current_correction.abs())", "(root_delay / 2. + current_correction.abs())"),
 ("c07-phc-not-added", ["C07", "C01"], D + "shm_writer.rs", "        bound_nsec += phc_error_bound;\n", ""),
 ("c07-phc-twice", ["C07"], D + "shm_writer.rs", "        bound_nsec += phc_error_bound;\n", "        bound_nsec += 2 * phc_error_bound;\n"),
 # ---- C08
 ("c08-assign-unconditionally", ["C08", "C01"], D + "shm_writer.rs", "        if clock_status == ChronyClockStatus::Synchronized {\n            self.bound_nsec = bound_nsec;", "        if clock_status != ChronyClockStatus::Unknown {\n            self.bound_nsec = bound_nsec;"),
 ("c08-skip-write-on-missing", ["C08"], D + "shm_writer.rs", "        self.shm_clock_state = self.shm_clock_state.apply_chrony(chrony_status);\n\n        // Finally write the new CEB out to shared memory.\n        self.write_clock_error_bound();", "        self.shm_clock_state = self.shm_clock_state.apply_chrony(chrony_status);\n\n        if within_grace_period {\n            self.write_clock_error_bound();\n        }"),
 ("c08-void-after-100", ["C08"], D + "shm_writer.rs", "tv_sec: self.as_of.tv_sec + 1000,", "tv_sec: self.as_of.tv_sec + 100,"),
 ("c08-void-after-nsec-copied", ["C08"], D + "shm_writer.rs", "            tv_sec: self.as_of.tv_sec + 1000,\n            tv_nsec: 0,", "            tv_sec: self.as_of.tv_sec + 1000,\n            tv_nsec: self.as_of.tv_nsec,"),
 ("c08-fsm-sync-x-freerunning", ["C08"], D + "shm_writer/clock_state_fsm.rs", "impl FSMTransition for ShmClockState<Synchronized> {\n    /// Implement the transitions from the Synchronized FSM state.\n    fn transition(&self, chrony: ChronyClockStatus) -> Box<dyn FSMState> {\n        match chrony {\n            ChronyClockStatus::Unknown => bstate!(Unknown),\n            ChronyClockStatus::Synchronized => bstate!(Synchronized),\n            ChronyClockStatus::FreeRunning => bstate!(FreeRunning),", "impl FSMTransition for ShmClockState<Synchronized> {\n    /// Implement the transitions from the Synchronized FSM state.\n    fn transition(&self, chrony: ChronyClockStatus) -> Box<dyn FSMState> {\n        match chrony {\n            ChronyClockStatus::Unknown => bstate!(Unknown),\n            ChronyClockStatus::Synchronized => bstate!(Synchronized),\n            ChronyClockStatus::FreeRunning => bstate!(Synchronized),"),
 ("c08-grace-arms-swapped", ["C08"], D + "shm_writer.rs", "            true => ChronyClockStatus::FreeRunning,\n            false => ChronyClockStatus::Unknown,", "            false => ChronyClockStatus::FreeRunning,\n            true => ChronyClockStatus::Unknown,"),
 # ---- C09
 ("c09-fix-removed", ["C09", "C01"], D + "shm_writer.rs", "        let clock_status = if self.has_measurement {", "        let clock_status = if true {"),
 ("c09-measurement-flag-on-any-report", ["C09"], D + "shm_writer.rs", "            self.as_of = as_of;\n            self.has_measurement = true;\n        }", "            self.as_of = as_of;\n        }\n        self.has_measurement = true;"),
 # ---- C10
 ("c10-leap3-synchronized", ["C10"], D + "lib.rs", "            0..=2 => Self::Synchronized,\n            3 => Self::FreeRunning,", "            0..=3 => Self::Synchronized,"),
 ("c10-ge-threshold", ["C10"], D + "shm_writer.rs", "if duration_since_update > empty_register_timeout {", "if duration_since_update >= empty_register_timeout {"),
 ("c10-times-80", ["C10"], D + "shm_writer.rs", "(polling_period * 8.0) as u64", "(polling_period * 80.0) as u64"),
 ("c10-future-synchronized", ["C10"], D + "shm_writer.rs", "            return (bound_nsec, ChronyClockStatus::Unknown);", "            return (bound_nsec, ChronyClockStatus::Synchronized);"),
 ("c10-no-staleness-override", ["C10"], D + "shm_writer.rs", "            if duration_since_update > empty_register_timeout {\n                ChronyClockStatus::FreeRunning", "            if duration_since_update > empty_register_timeout && false {\n                ChronyClockStatus::FreeRunning"),
 ("c10-leap-u8-truncation", ["C10"], D + "lib.rs", "        match value {\n            0..=2 => Self::Synchronized,", "        match value as u8 {\n            0..=2 => Self::Synchronized,"),
 # ---- C11
 ("c11-saturating-add", ["C11", "C03"], SHM + "writer.rs", "            let mut gen = gen.wrapping_add(1);", "            let mut gen = gen.saturating_add(1);"),
 ("c11-parity-inverted", ["C11", "C02"], SHM + "writer.rs", "            let gen = if gen & 0x0001 == 0 {", "            let gen = if gen & 0x0001 == 1 {"),
 # ---- C12
 ("c12-swap-client-reads", ["C12"], SHM + "lib.rs", "        let real = clock_gettime_safe(CLOCK_REALTIME)?;\n        let mono = clock_gettime_safe(CLOCK_MONOTONIC)?;", "        let mono = clock_gettime_safe(CLOCK_MONOTONIC)?;\n        let real = clock_gettime_safe(CLOCK_REALTIME)?;"),
 # ---- C13
 ("c13-grace-50s", ["C13"], D + "chrony_poller.rs", "const CHRONY_RESTART_GRACE_PERIOD: Duration = Duration::from_secs(5);", "const CHRONY_RESTART_GRACE_PERIOD: Duration = Duration::from_secs(50);"),
 ("c13-grace-le", ["C13"], D + "chrony_poller.rs", "self.last_tracking_data.elapsed() < CHRONY_RESTART_GRACE_PERIOD", "self.last_tracking_data.elapsed() <= CHRONY_RESTART_GRACE_PERIOD"),
 ("c13-default-last-now", ["C13"], D + "chrony_poller.rs", "            last_tracking_data: Instant::now()\n                .checked_sub(CHRONY_RESTART_GRACE_PERIOD)\n                .unwrap(),", "            last_tracking_data: Instant::now(),"),
 ("c13-grace-messages-swapped", ["C13"], D + "chrony_poller.rs", "                        if poller.is_within_grace_period() {\n                            Message::ChronyNotRespondingGracePeriod\n                        } else {\n                            Message::ChronyNotResponding\n                        }", "                        if poller.is_within_grace_period() {\n                            Message::ChronyNotResponding\n                        } else {\n                            Message::ChronyNotRespondingGracePeriod\n                        }"),
 ("c13-refid-ne", ["C13"], D + "chrony_poller.rs", "Some(phc_info) if phc_info.refid == tracking.ref_id => {", "Some(phc_info) if phc_info.refid != tracking.ref_id => {"),
 ("c13-phc-error-ignored", ["C13"], D + "chrony_poller.rs", "                                    error!(\"Failed to retrieve PHC error bound: {:?}\", e);\n                                    if poller.is_within_grace_period() {\n                                        Message::PhcErrorBoundRetrievalFailedGracePeriod", "                                    error!(\"Failed to retrieve PHC error bound: {:?}\", e);\n                                    if true {\n                                        Message::ClockErrorBoundData((tracking, 0, as_of))\n                                    } else if poller.is_within_grace_period() {\n                                        Message::PhcErrorBoundRetrievalFailedGracePeriod"),
 # ---- C14
 ("c14-blur-1ms-control", ["control:C14"], SHM + "lib.rs", "let causality_blur = as_of - TimeSpec::new(0, 1000);", "let causality_blur = as_of - TimeSpec::new(0, 1_000_000);"),
 ("c14-blur-1s", ["C14"], SHM + "lib.rs", "let causality_blur = as_of - TimeSpec::new(0, 1000);", "let causality_blur = as_of - TimeSpec::new(1, 0);"),
 ("c14-drift-gt", ["C14"], SHM + "lib.rs", "if self.max_drift_ppb >= 1_000_000_000 {", "if self.max_drift_ppb > 1_000_000_000 {"),
 ("c14-ffi-causality-as-malformed", ["C14", "C17"], "clock-bound-ffi/src/lib.rs", "            ShmError::CausalityBreach => clockbound_err_kind::CLOCKBOUND_ERR_CAUSALITY_BREACH,", "            ShmError::CausalityBreach => clockbound_err_kind::CLOCKBOUND_ERR_SEGMENT_MALFORMED,"),
 ("c14-unwrap-on-sub", ["C14"], SHM + "lib.rs", "            // Causality is breached.\n            return Err(ShmError::CausalityBreach);", "            // Causality is breached.\n            if (as_of - mono).num_seconds() > 1_000_000_000 {\n                panic!(\"absurd causality breach\");\n            }\n            return Err(ShmError::CausalityBreach);"),
 # ---- C15
 ("c15-main-ignores-panic", ["C15"], D + "thread_manager.rs", "                error!(\"Received panic message from {:?}\", channel_id);\n                broadcast_abort(dispatchbox.clone());\n                break;", "                error!(\"Received panic message from {:?}\", channel_id);"),
 ("c15-abort-skips-writer", ["C15"], D + "thread_manager.rs", ".filter(|chan| **chan != ChannelId::MainThread)", ".filter(|chan| **chan != ChannelId::MainThread && **chan != ChannelId::ShmWriter)"),
 ("c15-terminate-ignored", ["C15"], D + "thread_manager.rs", "                error!(\"Received terminate message from {:?}\", channel_id);\n                broadcast_abort(dispatchbox.clone());\n                break;", "                error!(\"Received terminate message from {:?}\", channel_id);"),
 # ---- C16
 ("c16-no-version-check", ["C16"], SHM + "shm_header.rs", "        if !self.has_valid_version() {\n            return Err(ShmError::SegmentNotInitialized);\n        }\n", ""),
 ("c16-size-gt", ["control:C16"], SHM + "shm_header.rs", "segsize as usize >= size_of::<Self>()", "segsize as usize > size_of::<Self>()"),
 ("c16-reader-size-le", ["C16"], SHM + "reader.rs", "if mmap_guard.segsize < size_of::<ShmHeader>() + size_of::<ClockErrorBound>() {", "if mmap_guard.segsize <= size_of::<ShmHeader>() + size_of::<ClockErrorBound>() {"),
 ("c16-error-kinds-swapped", ["C16"], SHM + "shm_header.rs", "        if !self.is_initialized() {\n            return Err(ShmError::SegmentNotInitialized);", "        if !self.is_initialized() {\n            return Err(ShmError::SegmentMalformed);"),
 ("c16-wipe-64-bytes", ["C16", "C04"], SHM + "writer.rs", "        let remaining = segsize - size_of::<ShmHeader>();", "        let remaining = segsize - size_of::<ShmHeader>() - 8;"),
 ("c16-fix-removed", ["C16"], SHM + "writer.rs", "        if file.metadata()?.len() < segsize as u64 {", "        if file.metadata()?.len() < 16 {"),
 # ---- C17
 ("c17-fields-reordered", ["C17"], SHM + "lib.rs", "    max_drift_ppb: u32,\n\n    /// Place-holder that is reserved for future use.\n    reserved1: u32,\n", "    reserved1: u32,\n\n    /// Maximum drift rate (see above).\n    max_drift_ppb: u32,\n"),
 ("c17-status-enum-order", ["C17"], "clock-bound-ffi/src/lib.rs", "    CLOCKBOUND_STA_UNKNOWN,\n    CLOCKBOUND_STA_SYNCHRONIZED,\n    CLOCKBOUND_STA_FREE_RUNNING,", "    CLOCKBOUND_STA_UNKNOWN,\n    CLOCKBOUND_STA_FREE_RUNNING,\n    CLOCKBOUND_STA_SYNCHRONIZED,"),
 ("c17-err-kind-order", ["C17"], "clock-bound-ffi/src/lib.rs", "    CLOCKBOUND_ERR_SEGMENT_NOT_INITIALIZED,\n    CLOCKBOUND_ERR_SEGMENT_MALFORMED,", "    CLOCKBOUND_ERR_SEGMENT_MALFORMED,\n    CLOCKBOUND_ERR_SEGMENT_NOT_INITIALIZED,"),
 ("c17-err-fields-swapped", ["C17"], "clock-bound-ffi/src/lib.rs", "    pub kind: clockbound_err_kind,\n    pub errno: i32,", "    pub errno: i32,\n    pub kind: clockbound_err_kind,"),
 ("c17-segment-size-80", ["C17", "C16"], SHM + "writer.rs", "        if size % 8 == 0 {\n            size\n", "        if size % 16 == 0 {\n            size\n"),
 # ---- C18
 ("c18-retries-not-decremented", ["C18"], SHM + "reader.rs", "            retries -= 1;\n", ""),
 ("c18-spin-until-even", ["C18"], SHM + "reader.rs", "        if first_gen & 0x0001 == 1 {\n            return Ok(&self.snapshot_ceb);\n        }\n", "        while first_gen & 0x0001 == 1 {\n            first_gen = generation.load(atomic::Ordering::Acquire);\n        }\n"),
 ("c18-control-cap-1e5", ["control:C18"], SHM + "reader.rs", "let mut retries = 1_000_000;", "let mut retries = 100_000;"),
 # ---- C19
 ("c19-fix-removed", ["C19"], D + "main.rs", "        Some(rate) => rate.checked_mul(1000).ok_or(format!(\n            \"The maximum drift rate of {} ppm is too large to be expressed in ppb\",\n            rate\n        ))?,", "        Some(rate) => rate.wrapping_mul(1000),"),
 ("c19-times-100", ["C19"], D + "main.rs", "rate.checked_mul(1000)", "rate.checked_mul(100)"),
]


def sh(cmd, **kw):
    return subprocess.run(cmd, shell=True, stdout=subprocess.PIPE, stderr=subprocess.STDOUT, text=True, **kw)


def main():
    want = sys.argv[1:]
    os.makedirs(os.path.join(V, "seeded"), exist_ok=True)
    if not os.path.isdir(WT):
        os.makedirs(os.path.dirname(WT), exist_ok=True)
        print(sh("git -C /repo worktree add -q %s HEAD" % WT).stdout)
    results = open(os.path.join(V, "seeded", "planted_results.jsonl"), "a")
    for name, props, path, old, new in M:
        if want and not any(w in name for w in want):
            continue
        sh("git -C %s checkout -q -- . && git -C %s reset -q --hard $(git -C /repo rev-parse HEAD)" % (WT, WT))
        full = os.path.join(WT, path)
        s = open(full).read()
        if s.count(old) != 1:
            print("SKIP %s: pattern found %d times" % (name, s.count(old)))
            continue
        open(full, "w").write(s.replace(old, new))
        t0 = time.time()
        env = "CARGO_NET_OFFLINE=true"
        b = sh("cd %s && %s timeout 600 cargo test --workspace --no-fail-fast --offline --target-dir /root/mut/p-target 2>&1 | grep -E '^test result|^error' " % (WT, env))
        passed = sum(int(l.split()[3]) for l in b.stdout.splitlines() if l.startswith("test result"))
        failed = sum(int(l.split()[5]) for l in b.stdout.splitlines() if l.startswith("test result"))
        compiles = "error" not in b.stdout and passed > 0
        rec = {"name": name, "expected": props, "compiles": compiles, "tests_passed": passed, "tests_failed": failed, "checks": {}}
        if compiles and failed == 0:
            for p in props:
                control = p.startswith("control:")
                pid = p.split(":")[-1]
                r = sh("cd %s && VERIF_REPO=%s ./check %s quick" % (V, WT, pid), timeout=3600)
                fired = "VIOLATION property=%s" % pid in r.stdout
                incon = "INCONCLUSIVE" in r.stdout
                first = next((l.strip() for l in r.stdout.splitlines() if l.strip().startswith("violation:")), "")
                rec["checks"][pid] = {"fired": fired, "inconclusive": incon, "control": control, "first": first[:300], "exit": r.returncode}
        rec["wall_s"] = round(time.time() - t0, 1)
        print(json.dumps(rec)[:600], flush=True)
        results.write(json.dumps(rec) + "\n")
        results.flush()
    sh("git -C %s checkout -q -- ." % WT)


if __name__ == "__main__":
    main()

#!/bin/bash
# usage: tools/recheck_seeds.sh <property> <seed-number>...  — run the final quick check of <property> against stored seeds
# (patch applied in the scratch worktree /root/mut/s-<property>); records the verdict in seeded/<id>/meta.json
p=$1; shift
wt=/root/mut/s-$p
[ -d $wt ] || git -C /repo worktree add -q --detach $wt HEAD
for n in "$@"; do
  d=/verif/seeded/$p-$n
  [ -f $d/patch.diff ] || continue
  git -C $wt checkout -q -- . ; git -C $wt clean -fdq -e target; git -C $wt reset -q --hard $(git -C /repo rev-parse HEAD)
  git -C $wt apply $d/patch.diff 2>/dev/null || { git -C $wt apply --3way $d/patch.diff >/dev/null 2>&1 && git -C $wt reset -q; } || { echo "$p-$n patch does not apply"; continue; }
  t0=$(date +%s)
  out=$(cd /verif && VERIF_REPO=$wt ./check $p quick 2>&1); rc=$?
  fired=false; echo "$out" | grep -q "VIOLATION property=$p" && fired=true
  first=$(echo "$out" | grep -m1 "violation:" | cut -c1-400)
  python3 - "$d/meta.json" "$fired" "$rc" "$first" "$(( $(date +%s) - t0 ))" "$(git -C /repo rev-parse --short HEAD)" "$(git -C /verif rev-parse --short HEAD)" <<'PY'
import json, sys
f, fired, rc, first, wall, repo, verif = sys.argv[1:]
m = json.load(open(f))
m["final_recheck"] = {"fired": fired == "true", "exit": int(rc), "first_violation": first.strip(), "wall_s": int(wall), "repo_commit": repo, "verif_commit": verif, "tier": "quick"}
json.dump(m, open(f, "w"), indent=1)
PY
  echo "$p-$n fired=$fired rc=$rc ${first:0:150}"
done
git -C $wt checkout -q -- . ; git -C $wt clean -fdq -e target
